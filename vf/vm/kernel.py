"""Access to the real kernel: bpf(2) through ctypes, independent of
ebpfcat.bpf except that programs are loaded with EBPF.load() (the code under
test for C05).  Tracks every fd the library obtains so cases can clean up."""
import ctypes
import errno
import os
import struct
from contextlib import contextmanager

import ebpfcat.bpf as ebpf_bpf

libc = ctypes.CDLL("libc.so.6", use_errno=True)
SYS_BPF = ebpf_bpf.SYS_BPF

_available = None


def bpf(cmd, attr):
    buf = ctypes.create_string_buffer(attr, len(attr))
    ret = libc.syscall(SYS_BPF, ctypes.c_int(cmd), buf, len(attr))
    if ret == -1:
        e = ctypes.get_errno()
        raise OSError(e, os.strerror(e))
    return ret, buf.raw


def available():
    """can we create maps, load and test-run XDP programs?"""
    global _available
    if _available is None:
        try:
            fd, _ = bpf(0, struct.pack("IIIII", 2, 4, 8, 1, 0))
            os.close(fd)
            # r0 = 2; exit
            code = struct.pack("<BBhiBBhi", 0xb7, 0, 0, 2, 0x95, 0, 0, 0)
            lic = ctypes.create_string_buffer(b"GPL")
            cbuf = ctypes.create_string_buffer(code, len(code))
            attr = struct.pack("IIQQIIQII16sII", 6, 2, ctypes.addressof(cbuf),
                               ctypes.addressof(lic), 0, 0, 0, 0, 0, b"probe",
                               0, 0)
            fd, _ = bpf(5, attr)
            try:
                rv, out = test_run(fd, bytes(64))
                _available = rv == 2
            finally:
                os.close(fd)
        except OSError:
            _available = False
    return _available


def test_run(fd, data_in, repeat=1, out_size=None):
    """BPF_PROG_TEST_RUN; returns (retval, data_out bytes)"""
    data_in = bytes(data_in)
    inbuf = ctypes.create_string_buffer(data_in, len(data_in))
    out_size = out_size or len(data_in) + 256
    outbuf = ctypes.create_string_buffer(out_size)
    attr = struct.pack("IIIIQQIIIIQQIII", fd, 0, len(data_in), out_size,
                       ctypes.addressof(inbuf), ctypes.addressof(outbuf),
                       repeat, 0, 0, 0, 0, 0, 0, 0, 0)
    _, raw = bpf(10, attr)
    _, retval, _, size_out = struct.unpack_from("IIII", raw)
    return retval, outbuf.raw[:size_out]


def map_lookup(fd, key, value_size):
    kbuf = ctypes.create_string_buffer(bytes(key), len(key))
    vbuf = ctypes.create_string_buffer(value_size)
    attr = struct.pack("IQQQ", fd, ctypes.addressof(kbuf),
                       ctypes.addressof(vbuf), 0)
    bpf(1, attr)
    return vbuf.raw


def map_update(fd, key, value, flags=0):
    kbuf = ctypes.create_string_buffer(bytes(key), len(key))
    vbuf = ctypes.create_string_buffer(bytes(value), len(value))
    attr = struct.pack("IQQQ", fd, ctypes.addressof(kbuf),
                       ctypes.addressof(vbuf), flags)
    bpf(2, attr)


def map_keys(fd, key_size):
    keys = []
    nxt = ctypes.create_string_buffer(key_size)
    attr = struct.pack("IQQ", fd, 0, ctypes.addressof(nxt))
    try:
        bpf(4, attr)
    except OSError as e:
        if e.errno == errno.ENOENT:
            return keys
        raise
    while True:
        keys.append(nxt.raw)
        cur = ctypes.create_string_buffer(nxt.raw, key_size)
        nxt = ctypes.create_string_buffer(key_size)
        attr = struct.pack("IQQ", fd, ctypes.addressof(cur),
                           ctypes.addressof(nxt))
        try:
            bpf(4, attr)
        except OSError as e:
            if e.errno == errno.ENOENT:
                return keys
            raise
        if len(keys) > 100000:
            raise RuntimeError("map_keys does not terminate")


def possible_cpus():
    with open("/sys/devices/system/cpu/possible") as fin:
        txt = fin.read().strip()
    n = 0
    for part in txt.split(","):
        if "-" in part:
            a, b = part.split("-")
            n = max(n, int(b) + 1)
        else:
            n = max(n, int(part) + 1)
    return n


class FdTracker:
    """record the fds ebpfcat obtains from bpf() and the map parameters"""

    def __init__(self):
        self.fds = []
        self.maps = {}     # fd -> (type, key_size, value_size, max_entries)
        self.progs = []

    def close_all(self):
        for fd in self.fds:
            try:
                os.close(fd)
            except OSError:
                pass
        self.fds = []


@contextmanager
def tracking():
    tracker = FdTracker()
    real = ebpf_bpf.bpf

    def wrapper(cmd, fmt, *args):
        ret = real(cmd, fmt, *args)
        if cmd == 0:
            tracker.fds.append(ret[0])
            tracker.maps[ret[0]] = tuple(args[:4])
        elif cmd == 5:
            tracker.fds.append(ret[0])
            tracker.progs.append(ret[0])
        elif cmd == 7:
            tracker.fds.append(ret[0])
        return ret

    ebpf_bpf.bpf = wrapper
    try:
        yield tracker
    finally:
        ebpf_bpf.bpf = real
        tracker.close_all()
