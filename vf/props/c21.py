"""C21 Fast-group frames only write outputs computed in the same pass

domain : the histories of the dispatcher machine (C22) for sync groups with
         random write / read datagram layouts (FMMU and direct), random
         returned working counters (right and wrong), wkc_errors zero (output
         disabled) and non-zero, registered and unregistered program.
oracle : c22.check_pass after every delivery: a fresh frame from user space
         has every writer command = NOP; a pass in which the group program ran
         with output enabled sets exactly the writer commands back, zeroes
         exactly their working counters and adds one error per writer whose
         counter differed; any other pass leaves all of that untouched; a
         frame returned to the bus with an enabled writer was processed by the
         group program in that pass.
user space (a quarter of the cases): the real FastSyncGroup.run() loop on the
         virtual-time rig; the responses it gets are frames as the kernel side
         hands them up (write datagrams enabled, non-zero loop counter), some
         transmissions are lost so that the 20 ms time-out path re-sends;
         every cyclic transmission must leave user space with all write
         datagrams = NOP and loop counter 0.
"""
from hypothesis import strategies as st

from ..sim import groups
from . import c22

ID = "C21"
LEVEL = "exploration"
TECHNIQUE = ("model-based stateful testing on the real dispatcher and group "
             "bytecode (interpreter + kernel): per-pass frame invariant over "
             "Hypothesis-generated histories")
RULE = ("histories as in C22, with layouts biased to several writers and "
        "wrong working counters; non-trivial = the history contains an "
        "active pass over >= 1 writer and (a wrong working counter was "
        "counted, or a passive / output-disabled pass occurred as well); "
        "distinct by (writer count, rule kinds sequence, error count); for the "
        "user-space part non-trivial = the group has a write datagram and at "
        "least one response was an activated frame")
ASSUMPTIONS = c22.ASSUMPTIONS + [
    "bytes inside the terminals' process-data regions are the devices' "
    "business (C19) and are not compared here",
]
EXAMPLES = {"quick": 80, "thorough": 1500}
MIN_NONTRIVIAL = {"quick": 80, "thorough": 1500}
CASE_TIMEOUT = 300

RULES = ["deliver"] * 10 + ["inject"] * 3 + ["lose", "register",
                                              "unregister"]


def strategy(tier):
    return st.one_of(kernel_side_strategy(), kernel_side_strategy(),
                     kernel_side_strategy(), c22.userspace_strategy())


def kernel_side_strategy():
    rule = st.tuples(st.sampled_from(RULES), st.integers(0, 5),
                     st.lists(st.integers(0, 6), max_size=3))
    return st.fixed_dictionaries({
        "group": groups.fast_group_strategy(
            max_terminals=3,
            types=["AnalogOutput", "DigitalOutput", "AnalogOutput",
                   "Custom", "AnalogInput"]),
        "aerotech": st.lists(st.sampled_from([False, False, True]),
                             min_size=3, max_size=3),
        "counter": st.sampled_from([0, 1, 2, 3, 254, 255])
        | st.integers(0, 2**32 - 1),
        "registered": st.sampled_from([True, True, True, False]),
        "wkc_errors": st.sampled_from([0, 1, 1, 7, 65535, 65536, 2**32 - 1]),
        "wrong_delta": st.sampled_from([1, 1, 255, 256, 513, 65535]),
        "rules": st.lists(rule, min_size=3, max_size=25).map(
            lambda rs: [("inject", 0, []), ("inject", 0, [])] + rs),
    })


def run_case(case):
    if case.get("kind") == "userspace":
        return c22.run_userspace(case)
    res = c22.run_case(case, only_c21=True)
    if not res["ok"] or "stats" not in res:
        return res
    s = res["stats"]
    res["nontrivial"] = bool(
        res.get("writers") and s["active"] >= 1
        and (s["errors"] or s["passive"] or s["output-disabled-runs"]))
    res["classes"] = list(res["classes"]) + [
        f"writers={min(res.get('writers', 0), 4)}",
        "wrong-wkc-counted" if s["errors"] else "no-wkc-error"]
    res["key"] = repr((res.get("writers"), res["summary"]["history"],
                       s["errors"]))
    return res


KNOWN = {}
