"""C28 Serial channels transfer bytes exactly once, in order

machine : an EL6002 channel model (initialisation after 0-k cycles, transmit
          accepted after 0-k cycles, receive requests whose acknowledgement
          the master gives, both directions active together) driven cycle by
          cycle around the real Serial.update() of a slow sync group on the
          real EL6002 / EL6022 terminal classes; the application side writes chunks of
          1-22 bytes (sometimes several before the next cycle) to the channel's
          pipe and drains its receive pipe.  The terminal's other channel
          is used by a second Serial device of the same group: either it is
          never initialised, or it carries its own traffic (own model, own
          application), the two devices updated in either order.
oracle  : the concatenation of the chunks the model accepted equals what the
          application wrote - exactly once, in order, one request toggle per
          chunk, data and request unchanged until accepted; the bytes the
          application reads equal the chunks the model announced, each
          acknowledged by exactly one toggle.
"""
import os
import struct

from hypothesis import strategies as st

from ebpfcat.ebpfcat import SimpleEtherCat, SyncGroup, SyncManager
from ebpfcat.serial import Serial
from ebpfcat.terminals import EL6002, EL6022

ID = "C28"
LEVEL = "exploration"
TECHNIQUE = ("model-based stateful testing: Hypothesis-generated handshake "
             "timings and payloads, the real Serial.update() stepped against "
             "an EL6002 channel model; invariants over the history")
RULE = ("Hypothesis draws (channel 1 or 2, per cycle: optional application "
        "write(s), optional terminal chunk, accept delays in both directions, "
        "init delay, stale toggle bits / data at start-up); non-trivial = both directions transferred data and at "
        "least one accept was delayed by >= 1 cycle; distinct by (cycle "
        "event pattern, delays)")
ASSUMPTIONS = [
    "EL6002 process image in 22 byte mode (status/control byte, length byte, "
    "22 data bytes) as declared by ebpfcat.terminals.EL6002",
    "the model accepts traffic as soon as the master considers itself "
    "connected and mirrors the transmit toggle when it has taken the data",
    "the application's writes may be merged by the pipe: the byte stream, not "
    "the chunk boundaries of the application, must be preserved; every "
    "presented chunk is 1..22 bytes",
]
EXAMPLES = {"quick": 150, "thorough": 10000}
MIN_NONTRIVIAL = {"quick": 300, "thorough": 5000}


def strategy(tier):
    chunk = st.binary(min_size=1, max_size=22)
    # the application writes a byte stream: single writes may be longer than
    # the 22 bytes a channel carries at a time
    appchunk = st.binary(min_size=1, max_size=22) | st.binary(min_size=1,
                                                              max_size=60)
    cycle = st.fixed_dictionaries({
        "app": st.lists(appchunk, max_size=2),
        "term": st.none() | st.none() | chunk,
        "tx_delay": st.integers(0, 3),
        "ack_check": st.booleans(),
    })
    return st.fixed_dictionaries({
        "channel": st.sampled_from([1, 2]),
        "init_delay": st.integers(0, 3),
        "cycles": st.lists(cycle, min_size=3, max_size=40),
        "noise": st.integers(0, 255),
        "stale": st.sampled_from([0, 0, 1, 2, 3]) | st.integers(0, 255),
        # the terminal's other channel: never initialised, or with traffic
        # of its own
        "cycles2": st.none() | st.lists(cycle, min_size=3, max_size=40),
        "init_delay2": st.integers(0, 3),
        "stale2": st.sampled_from([0, 0, 1, 2, 3]),
        "order": st.integers(0, 1),
        "terminal": st.sampled_from(["EL6002", "EL6022"]),
    })


def enumerate_cases(tier):
    """one very long history per channel - more chunks than a 16 bit counter
    can number"""
    cyc = {"app": [b"\x55\xaa\x01"], "term": None, "tx_delay": 0,
           "ack_check": True}
    for channel in (1, 2):
        yield {"channel": channel, "init_delay": 0, "cycles": [cyc],
               "repeat": 66000, "noise": 0, "stale": 0, "cycles2": None,
               "order": 0, "terminal": "EL6002"}


def run_case(case):
    ec = SimpleEtherCat("verif")
    # both two-channel serial terminals of the library have this process
    # image (24 bytes per channel and direction)
    term = (EL6022 if case.get("terminal") == "EL6022" else EL6002)(ec)
    term.position = 1005
    term.pdos = {}
    term.use_fmmu = False
    term.pdo_in_sz = term.pdo_out_sz = 48
    term.pdo_in_off, term.pdo_out_off = 0x1100, 0x1400
    chan = term.channel1 if case["channel"] == 1 else term.channel2
    dev = Serial(chan)
    # the terminal's other channel is in use as well: either it never gets
    # its initialisation accepted (it only keeps asking for it), or it carries
    # traffic of its own (cycles2)
    dev2 = Serial(term.channel2 if case["channel"] == 1 else term.channel1)
    fds = [dev.in_read, dev.in_write, dev.out_read, dev.out_write,
           dev2.in_read, dev2.in_write, dev2.out_read, dev2.out_write]
    try:
        return _run(case, ec, term, dev, dev2)
    finally:
        for fd in fds:
            try:
                os.close(fd)
            except OSError:
                pass


def brief(b):
    b = bytes(b)
    return repr(b) if len(b) <= 48 else \
        f"{len(b)} bytes {b[:12]!r}...{b[-12:]!r}"


def differ(a, b):
    a, b = bytes(a), bytes(b)
    if max(len(a), len(b)) <= 48:
        return ""
    k = next((i for i, (x, y) in enumerate(zip(a, b)) if x != y),
             min(len(a), len(b)))
    return f" (first difference at byte {k})"


class Channel:
    """one channel of the terminal (model) and its application"""

    def __init__(self, no, dev, data, ipos, opos, init_delay, stale):
        self.no, self.dev, self.data = no, dev, data
        self.ipos, self.opos = ipos, opos
        # the toggle bits may be in any state when the master (re)starts,
        # and the data field may hold an old chunk
        data[ipos] = stale & 3
        data[opos] = 0
        data[ipos + 1:ipos + 24] = struct.pack(
            "<23p", bytes([stale]) * (stale % 23)) if stale else bytes(23)
        self.app_written = bytearray()
        self.accepted = bytearray()   # what the terminal took from the master
        self.announced = bytearray()  # what the terminal sent to the master
        self.app_read = bytearray()
        self.events = []
        self.init_wait = init_delay
        self.last_txreq = 0
        self.tx_pending = None        # [chunk, cycles left, raw, request]
        self.rx_outstanding = False
        self.last_rxacc = 0
        self.rx_acc_toggles = 0
        self.tx_toggles = 0
        self.delayed = False
        self.connected_seen = False

    def app(self, cyc):
        for chunk in cyc["app"] or []:
            if self.dev.connected:
                try:
                    os.write(self.dev.out_write, chunk)
                except BlockingIOError:
                    continue        # pipe full: the application would wait
                self.app_written += chunk
                self.events.append(f"app>{len(chunk)}")

    def before(self, cyc):
        """the terminal's side, before the master's update"""
        data, ipos, opos, dev = self.data, self.ipos, self.opos, self.dev
        ctrl = data[opos]
        if not dev.connected:
            if ctrl & 4:       # init request seen
                if self.init_wait <= 0:
                    data[ipos] |= 4
                else:
                    self.init_wait -= 1
        else:
            data[ipos] &= ~4 & 0xff
        if self.tx_pending is not None:
            # data and request must stay put until accepted
            cur = bytes(data[opos + 1:opos + 24])
            if cur != self.tx_pending[2] or (ctrl & 1) != self.tx_pending[3]:
                return ("the transmit data or request changed before the "
                        "terminal accepted it")
            if self.tx_pending[1] <= 0:
                self.accepted += self.tx_pending[0]
                data[ipos] ^= 1          # mirror the toggle: accepted
                self.events.append(f"acc{len(self.tx_pending[0])}")
                self.tx_pending = None
            else:
                self.tx_pending[1] -= 1
                self.delayed = True
        if dev.connected and not self.rx_outstanding and cyc["term"]:
            chunk = cyc["term"]
            data[ipos + 1:ipos + 24] = struct.pack("<23p", chunk)
            data[ipos] ^= 2              # receive request toggle
            self.rx_outstanding = True
            self.announced += chunk
            self.events.append(f"term>{len(chunk)}")
        return None

    def after(self, cyc):
        """what the terminal sees after the master's update"""
        data, opos, dev = self.data, self.opos, self.dev
        ctrl = data[opos]
        if dev.connected and not self.connected_seen:
            self.connected_seen = True
            self.last_txreq = ctrl & 1
            self.last_rxacc = (ctrl >> 1) & 1
            self.events.append("connected")
            return None
        if not dev.connected:
            return None
        # transmit request toggled -> a new chunk is presented
        if (ctrl & 1) != self.last_txreq:
            self.last_txreq = ctrl & 1
            self.tx_toggles += 1
            if self.tx_pending is not None:
                return ("a second transmit request was raised before the "
                        "first chunk was accepted")
            raw = bytes(data[opos + 1:opos + 24])
            ln = raw[0]
            if not 1 <= ln <= 22:
                return f"presented chunk has length byte {ln}"
            self.tx_pending = [raw[1:1 + ln], cyc["tx_delay"], raw, ctrl & 1]
            self.events.append(f"req{ln}")
        # receive accepted toggled -> the master took the chunk
        if ((ctrl >> 1) & 1) != self.last_rxacc:
            self.last_rxacc = (ctrl >> 1) & 1
            self.rx_acc_toggles += 1
            if not self.rx_outstanding:
                return ("receive-accepted toggled without a pending receive "
                        "request")
            self.rx_outstanding = False
            self.events.append("rxack")
        # ---- application drains its pipe
        try:
            self.app_read += os.read(dev.in_read, 4096)
        except BlockingIOError:
            pass
        return None

    def final(self):
        if not self.connected_seen:
            return ("the channel never connected although the terminal "
                    "accepted the initialisation")
        if self.tx_pending is not None:
            self.accepted += self.tx_pending[0]
        if not self.app_read.startswith(b"A"):
            return (f"the application did not get the connect marker: "
                    f"{bytes(self.app_read[:4])!r}")
        if bytes(self.accepted) != bytes(self.app_written):
            return (f"terminal accepted {brief(self.accepted)}, the "
                    f"application wrote {brief(self.app_written)}"
                    f"{differ(self.accepted, self.app_written)}")
        if self.rx_outstanding:
            return ("a chunk announced by the terminal was never "
                    "acknowledged")
        if bytes(self.app_read[1:]) != bytes(self.announced):
            return (f"application read {brief(self.app_read[1:])}, the "
                    f"terminal announced {brief(self.announced)}"
                    f"{differ(self.app_read[1:], self.announced)}")
        return None


IDLE = {"app": [], "term": None, "tx_delay": 0, "ack_check": True}


def _run(case, ec, term, dev, dev2):
    first = case.get("order", 0) == 0
    sg = SyncGroup(ec, [dev, dev2] if first else [dev2, dev])
    sg.allocate()
    data = bytearray([case["noise"]]) * max(46, sg.packet.size)
    sg.current_data = data
    off = 24 * (case["channel"] - 1)
    base_in = sg.pdo_assign[term][SyncManager.IN]
    base_out = sg.pdo_assign[term][SyncManager.OUT]
    other_in, other_out = base_in + 24 - off, base_out + 24 - off
    ch = Channel(case["channel"], dev, data, base_in + off, base_out + off,
                 case["init_delay"], case.get("stale", 0))
    active2 = bool(case.get("cycles2"))
    if active2:
        ch2 = Channel(3 - case["channel"], dev2, data, other_in, other_out,
                      case.get("init_delay2", 0), case.get("stale2", 0))
    else:
        ch2 = None
        data[other_in] = 0      # the other channel never accepts its init
        data[other_out] = 0
        data[other_in + 1:other_in + 24] = bytes(23)
    snapshot_other = bytes(data[other_out:other_out + 24])

    def fail(what, c=None):
        c = c or ch
        return dict(ok=False, nontrivial=True, classes=[],
                    what=f"channel {c.no}: {what}; checked channel "
                         f"{case['channel']}, the other one "
                         f"{'carries traffic too' if active2 else 'is never initialised'}"
                         f", init delay {case['init_delay']}, events "
                         f"{c.events[-14:]}")

    # idle cycles at the end, enough to drain what the applications wrote
    # (22 bytes per accepted chunk, a chunk every other cycle)
    scripts = [list(case["cycles"]) * case.get("repeat", 1),
               list(case.get("cycles2") or [])]
    backlog = max(sum(len(c) for cyc in sc for c in cyc["app"] or [])
                  for sc in scripts)
    total = max(len(sc) for sc in scripts) + 8 + 3 * (backlog // 22 + 2)
    for n in range(total):
        cyc = scripts[0][n] if n < len(scripts[0]) else IDLE
        cyc2 = scripts[1][n] if n < len(scripts[1]) else IDLE
        chans = [(ch, cyc)] + ([(ch2, cyc2)] if active2 else [])
        for c, cy in chans:
            c.app(cy)
        for c, cy in chans:
            what = c.before(cy)
            if what:
                return fail(what, c)
        # ---- the master's cycle
        try:
            for d in sg.devices:
                d.update()
        except Exception as e:
            return fail(f"Serial.update raised {type(e).__name__}: {e}")
        if not active2:
            now_other = bytes(data[other_out:other_out + 24])
            if now_other[1:] != snapshot_other[1:] \
                    or now_other[0] not in (snapshot_other[0], 4):
                return fail("the other channel's output bytes changed "
                            "(beyond its own initialisation request)")
            if dev2.connected:
                return fail("the other channel considers itself connected "
                            "although its initialisation was never accepted")
        for c, cy in chans:
            what = c.after(cy)
            if what:
                return fail(what, c)
    for c in [ch] + ([ch2] if active2 else []):
        what = c.final()
        if what:
            return fail(what, c)
    both = bool(ch.accepted) and bool(ch.announced)
    delayed = ch.delayed
    pattern = "".join(e[0] for e in ch.events)
    return dict(ok=True, nontrivial=both and delayed,
                key=repr((case["channel"], pattern, case["init_delay"],
                          "".join(e[0] for e in ch2.events)
                          if active2 else None)),
                classes=[f"channel={case['channel']}",
                         case.get("terminal", "EL6002"),
                         "both-directions" if both else "one-direction",
                         "delayed" if delayed else "immediate",
                         "other-channel-active" if active2
                         else "other-channel-uninitialised"],
                summary={"events": ch.events[:30],
                         "tx_toggles": ch.tx_toggles,
                         "rx_acks": ch.rx_acc_toggles,
                         "other": ch2.events[:20] if active2 else None})


KNOWN = {}
