"""The packet dispatcher (EtherXDP) and a fast sync group, executed for real:
both programs are assembled by ebpfcat, loaded, and every delivery of a frame
runs the dispatcher bytecode (which tail-calls the group program) in the
independent interpreter and, when bpf(2) is available, in the kernel.

Used by C21 (what a pass does to a frame) and C22 (histories).
"""
import struct

import ebpfcat.bpf as ebpf_bpf
from ebpfcat.bpf import MapType, create_map
from ebpfcat.ebpfcat import EtherXDP, SyncManager

from ..gen import dsl
from ..runner import HarnessError
from ..vm import interp, kernel
from . import groups

ETH = 14
TX, PASS = 3, 2


class World:
    """dispatcher + one fast sync group, with their map state"""

    def __init__(self, case, tracker, group_no=5, ethertype=0x3456):
        self.tracker = tracker
        self.group_no = group_no
        self.ethertype = ethertype
        self.disp = EtherXDP()
        self.disp.programs = create_map(MapType.PROG_ARRAY, 4, 4, 64)
        self.prog_fd = self.disp.programs
        self.dl = dsl.Loaded(self.disp)
        if self.dl.status != "ok":
            raise HarnessError(f"dispatcher does not load: {self.dl.status} "
                               f"{self.dl.error}")
        ec, terms, devs, sg = groups.build_group(case, "fast")
        sg.packet_index = group_no
        self.ec, self.terms, self.devs, self.sg = ec, terms, devs, sg
        self.gl = dsl.Loaded(sg)
        if self.gl.status != "ok":
            raise HarnessError(f"group program does not load: "
                               f"{self.gl.status} {self.gl.error}")
        self.dsize = type(self.disp).__dict__["variables"].size
        self.gsize = type(sg).__dict__["properties"].size
        fds = [fd for fd, (t, ks, vs, mx, *_) in tracker.maps.items()
               if t == 2]
        self.dfd = [fd for fd in fds
                    if tracker.maps[fd][2] == self.dsize][0]
        gf = [fd for fd in fds if tracker.maps[fd][2] == self.gsize
              and fd != self.dfd]
        if not gf:
            raise HarnessError("cannot tell the maps apart")
        self.gfd = gf[-1]
        self.dstate = bytearray(self.dsize)
        self.gstate = bytearray(self.gsize)
        self.registered = False
        self.counter_pos = self.disp.__dict__["counters"] + 4 * group_no
        self.wkc_pos = sg.__dict__["wkc_errors"]
        self.writers = list(sg.packet.on_the_fly)
        # what a healthy bus answers, independent of the library's own
        # expectation (packet.counters): one per terminal that processes the
        # datagram - the terminals mapped into a logical datagram, or the one
        # addressed terminal
        from ebpfcat.terminals import AerotechBase
        from . import frames as fr
        n_in = sum(1 for t in sg.terminals if t.pdo_in_sz and (
            t.use_fmmu or isinstance(t, AerotechBase)))
        n_out = sum(1 for t, rw in sg.terminals.items()
                    if rw and t.pdo_out_sz and t.use_fmmu
                    and not isinstance(t, AerotechBase))
        try:
            length, ftype, dgs, end = fr.parse(bytes(sg.packet.assemble(
                group_no, ethertype)))
        except fr.FrameError:
            dgs = []          # a group without process data
        self.expected = {d.wkc_pos: {10: n_in, 11: n_out}.get(d.cmd, 1)
                         for d in dgs[1:]}
        self.library_expected = dict(sg.packet.counters)
        self.regions = []
        for t in terms:
            for sm, start in sg.pdo_assign.get(t, {}).items():
                n = t.pdo_in_sz if sm is SyncManager.IN else t.pdo_out_sz
                self.regions.append((start + ETH, start + ETH + n))

    # --------------------------------------------------------------- state
    @property
    def counter(self):
        return struct.unpack_from("<I", self.dstate, self.counter_pos)[0]

    @counter.setter
    def counter(self, v):
        struct.pack_into("<I", self.dstate, self.counter_pos, v & 0xffffffff)

    @property
    def wkc_errors(self):
        return struct.unpack_from("<I", self.gstate, self.wkc_pos)[0]

    @wkc_errors.setter
    def wkc_errors(self, v):
        struct.pack_into("<I", self.gstate, self.wkc_pos, v & 0xffffffff)

    def register(self, on=True):
        if on and not self.registered:
            ebpf_bpf.update_elem(self.prog_fd, struct.pack("<I", self.group_no),
                                 struct.pack("<I", self.gl.fd))
        elif not on and self.registered:
            ebpf_bpf.delete_elem(self.prog_fd,
                                 struct.pack("<I", self.group_no))
        self.registered = on

    def fresh_frame(self):
        """what user space puts on the wire for this group"""
        payload = self.sg.packet.sterile(self.group_no, self.ethertype)
        return bytearray(b"\xff" * 6 + b"\x02\0\0\0\0\x01"
                         + b"\x88\xa4") + bytearray(payload)

    # ------------------------------------------------------------- deliver
    def deliver(self, frame):
        """run the dispatcher on the frame; returns a dict"""
        maps = dsl.make_models(self.tracker,
                               {self.dfd: bytes(self.dstate),
                                self.gfd: bytes(self.gstate)})
        for m in maps.values():
            if m.kind == "prog_array" and m.fd == self.prog_fd \
                    and self.registered:
                m.progs[self.group_no] = "group"
        mach = interp.Machine(self.dl.code, maps=maps, packet=frame,
                              programs={"group": self.gl.code},
                              randoms=[0x12345678])
        res = {}
        try:
            res["retval"] = mach.run()
        except interp.Fault as f:
            res["fault"] = str(f)
            return res
        res["frame"] = bytes(mach.packet)
        res["ran_group"] = any(ok for _, ok in mach.tail_calls)
        res["tail_calls"] = list(mach.tail_calls)
        dnew = bytes(maps[self.dfd].values[0][0][:self.dsize])
        gnew = bytes(maps[self.gfd].values[0][0][:self.gsize])
        # ---- kernel differential (prandom makes the dispatcher's first
        # instructions non-deterministic, but with rate 0 the outcome is not)
        if self.dl.fd is not None and len(frame) >= 14:
            self.disp.variables[:self.dsize] = bytes(self.dstate)
            self.sg.properties[:self.gsize] = bytes(self.gstate)
            kret, kout = kernel.test_run(self.dl.fd, bytes(frame))
            kd = bytes(self.disp.variables[:self.dsize])
            kg = bytes(self.sg.properties[:self.gsize])
            if (kret, kout, kd, kg) != (res["retval"], res["frame"], dnew,
                                        gnew):
                raise HarnessError(
                    f"interpreter and kernel disagree on a dispatcher pass: "
                    f"retval {res['retval']} vs {kret}, frame equal "
                    f"{kout == res['frame']}, counters equal {kd == dnew}, "
                    f"group map equal {kg == gnew}")
            res["kernel_checked"] = True
        self.dstate[:] = dnew
        self.gstate[:] = gnew
        return res

    def bus_pass(self, frame, wrong, delta=1):
        """the terminals process a frame that went back to the bus: every
        enabled datagram gets its working counter (wrong ones are off by
        `delta`)"""
        out = bytearray(frame)
        for k, (pos, want) in enumerate(sorted(self.expected.items())):
            # the datagram's command byte sits at pos - 10 - len(data);
            # find it through the writers / packet data list
            pass
        # walk the datagram chain
        p = ETH + 2
        n = 0
        while p + 10 <= len(out):
            cmd = out[p]
            lf = out[p + 6] | (out[p + 7] << 8)
            ln = lf & 0x7ff
            wpos = p + 10 + ln
            if wpos + 2 > len(out):
                break
            if cmd != 0:
                want = self.expected.get(wpos - ETH, 1)
                cur = out[wpos] | (out[wpos + 1] << 8)
                inc = want + (delta if n in wrong else 0)
                struct.pack_into("<H", out, wpos, (cur + inc) & 0xffff)
            n += 1
            p = wpos + 2
            if not lf & 0x8000:
                break
        return out

    def writer_enabled(self, frame):
        return [frame[s + ETH] != 0 for s, _, _ in self.writers]
