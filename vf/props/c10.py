"""C10 User-space map calls never overrun Python buffers

domain : the operation histories of C09 (hash-map variables of every format,
         also with an explicit byte order,
         Dict insert / get / delete / pop with and without default / iteration,
         per-CPU map reads, program-side operations in between) on randomly
         declared maps, with 1-24 possible CPUs (listed in sysfs in any cpulist
         notation) of which 0-3 are offline.
monitor: ebpfcat.bpf.bpf, addrof and addressof are replaced by the user-space
         stand-in of vf/vm/fakebpf.py: every pointer argument of every syscall
         is traced back to the Python buffer it was taken from, and the number
         of bytes the kernel would read or write through it (key size, value
         size, value size rounded up to 8 times the possible CPUs for per-CPU
         maps) is compared with the length of that buffer.
oracle : no syscall of the history gets a buffer shorter than what the kernel
         transfers.  A pointer the monitor cannot trace is a harness error.
"""
from hypothesis import strategies as st

from ..runner import HarnessError
from . import c09

ID = "C10"
LEVEL = "exploration"
TECHNIQUE = ("model-based stateful testing with a syscall monitor: "
             "Hypothesis-generated map declarations and operation histories, "
             "every bpf() argument checked against the size of the Python "
             "buffer it points to")
RULE = ("Hypothesis draws (hash-map variable formats, Structure layouts, "
        "possible / online CPU counts, a history of 3-40 operations); "
        "non-trivial = the history issued at least 8 syscalls with buffers, "
        "among them a hash-map variable read, a Dict pop or iteration and a "
        "per-CPU map read; distinct by (formats, layouts, CPU counts, "
        "operation kind sequence)")
ASSUMPTIONS = [
    "the sizes the kernel transfers are those of bpf(2): key_size, value_size, "
    "and round_up(value_size, 8) x possible CPUs for per-CPU arrays",
    "the number of possible CPUs is what /sys/devices/system/cpu/possible "
    "reports (cpulist notation: one range, several ranges, single numbers, "
    "with or without a hole in the numbering) and os.cpu_count() is the "
    "number of CPUs online (both simulated)",
    "array maps are accessed through mmap, not through syscalls, and are not "
    "part of this property's domain",
    "semantic disagreements of a history (C09's subject) do not count here",
]
EXAMPLES = {"quick": 60, "thorough": 5000}
MIN_NONTRIVIAL = {"quick": 150, "thorough": 3000}


@st.composite
def case_strategy(draw):
    case = draw(c09.case_strategy())
    case["exec"] = "fake"
    case["online_delta"] = draw(st.sampled_from([0, 1, 1, 3]))
    case["ncpu"] = draw(st.sampled_from([1, 2, 3, 4, 5, 8, 12, 16, 24]))
    # notation of the list of possible CPUs in sysfs
    case["possible_form"] = draw(st.sampled_from([0, 0, 1, 2, 3]))
    # make sure the interesting Python-side calls are there
    extra = draw(st.lists(st.sampled_from(
        ["py_hget", "py_pread", "py_dpop", "py_dpopd", "py_diter", "py_dget",
         "py_ddel", "py_dset", "py_hset", "py_din"]), min_size=3,
        max_size=12))
    for kind in extra:
        op = dict(draw(st.sampled_from(case["ops"])), op=kind)
        op["k"] = draw(st.integers(0, len(case["hv"]) - 1))
        if case["hv"][op["k"]]["fmt"] == "x":
            op["hval"] = abs(op["hval"]) % 10**6
        else:
            lo, hi = c09.dsl.fmt_range(case["hv"][op["k"]]["fmt"][-1])
            op["hval"] = min(max(op["hval"], lo), hi)
        case["ops"].insert(draw(st.integers(0, len(case["ops"]))), op)
    # formats with an explicit byte order are accepted as well (what such a
    # variable then reads is not this property's subject)
    for i, h in enumerate(case["hv"]):
        if h["fmt"] != "x" and draw(st.integers(0, 5)) == 0:
            h["fmt"] = draw(st.sampled_from("<>!=")) + h["fmt"]
            h["default"] = 0
            for op in case["ops"]:
                if op["k"] == i:
                    op["hval"] = 0
    return case


def strategy(tier):
    return case_strategy()


def enumerate_cases(tier):
    """hash maps with up to 255 variables (and more, if the library takes
    them)"""
    for case in c09.enumerate_cases(tier):
        yield dict(case, exec="fake", ncpu=4, online_delta=1, possible_form=0)


def run_case(case):
    case = dict(case, exec="fake")
    r = c09.run_case(case)
    if r.get("unknown"):
        raise HarnessError(f"untracked pointer handed to bpf(): "
                           f"{r['unknown'][:3]}")
    calls = r.get("calls", [])
    kinds = [c[0] for c in calls]
    hist = [o["op"] for o in case["ops"]]
    classes = [f"possible={case['ncpu']}",
               f"offline={min(case['online_delta'], case['ncpu'] - 1)}"]
    classes += sorted({"call=" + k for k in kinds})
    if not calls:
        return dict(ok=True, nontrivial=False, classes=classes + ["no-calls"])
    over = r.get("overruns", [])
    if over:
        what, direction, need, have = over[0]
        percpu = "fd=" in what and any(
            c[0] == "create" and c[2][0] == 6 and f"fd={c[1]}" in what
            for c in calls)
        return dict(
            ok=False, nontrivial=True, classes=classes,
            facts=["percpu" if percpu else "plain"],
            bucket=(what.split(" fd=")[0], need, have),
            what=f"{what}: the kernel would {direction} {need} bytes, the "
                 f"Python buffer has {have} ({len(over)} such calls); "
                 f"possible CPUs {case['ncpu']}, offline "
                 f"{case['online_delta']}, hash variables "
                 f"{[h['fmt'] for h in case['hv']]}, key {case['kf']}, value "
                 f"{case['vf']}, history {hist[:12]}")
    buffers = sum(1 for k in kinds if k in ("lookup", "update", "delete",
                                            "next_key"))
    percpu_fds = {c[1] for c in calls if c[0] == "create" and c[2][0] == 6}
    hash_fds = {c[1] for c in calls if c[0] == "create" and c[2][0] == 1
                and c[2][1] == 1}
    did_percpu = any(c[0] == "lookup" and c[1] in percpu_fds for c in calls)
    did_hvar = any(c[0] == "lookup" and c[1] in hash_fds for c in calls)
    did_dict = "next_key" in kinds or any(
        o in hist for o in ("py_dpop", "py_dpopd"))
    return dict(ok=True,
                nontrivial=buffers >= 8 and did_percpu and did_hvar
                and did_dict,
                key=repr(([h["fmt"] for h in case["hv"]], case["kf"],
                          case["vf"], case["ncpu"], case["online_delta"],
                          hist)),
                classes=classes,
                summary={"history": hist[:30], "syscalls": len(calls),
                         "with_buffers": buffers,
                         "sizes": sorted({(c[0], c[2], c[3]) for c in calls
                                          if c[0] != "create"})[:12]})


KNOWN = {}
