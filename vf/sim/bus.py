"""Simulated EtherCAT terminals and bus (written from ETG.1000.4, see DESIGN.md
appendix B; shares no code with ebpfcat).

TerminalModel : register file + AL state machine + SII/EEPROM interface +
                mailbox sync managers (with a pluggable mailbox server) +
                FMMUs.  Every access is recorded in .log.
Bus           : applies one datagram to an ordered list of terminals with the
                addressing rules of APxx / FPxx / Bxx / Lxx.
attach_datagram_level / FakeTransport : the two attach points to a real
                ebpfcat.ethercat.EtherCat instance.
"""
import asyncio

from . import frames

INIT, PREOP, BOOT, SAFEOP, OP = 1, 2, 3, 4, 8


class TerminalModel:
    def __init__(self, station=0, fmmus=3, sms=4):
        self.mem = bytearray(0x10000)
        self.log = []
        self.mem[4] = fmmus
        self.mem[5] = sms
        self.set_station(station)
        # ---- AL state machine
        self.al_state = INIT
        self.al_error = False
        self.al_code = 0
        self.al_pending = None       # [target_state, polls_left, ack]
        self.al_delay = lambda frm, to: 0
        self.al_status_reads = 0
        self.al_error_at = None      # raise error at this status read number
        self.al_refuse = None        # callable(frm, to) -> status code or None
        # ---- EEPROM
        self.eeprom = b""
        self.ee_eight = True
        self.ee_busy = lambda: 0     # polls a command stays busy
        self.ee_idle_busy = 0        # busy polls before the first command
        self.ee_polls_left = 0
        self.ee_garbage = 0xA5
        # ---- mailbox
        self.mbx_out = None          # (offset, size) master -> terminal
        self.mbx_in = None           # (offset, size) terminal -> master
        self.mbx_out_buf = None      # bytes being written
        self.mbx_out_full = False
        self.mbx_in_queue = []       # [[polls_left, bytes]]
        self.mbx_server = None       # callable(terminal, message bytes)
        self.mbx_last_counter = None
        self.mbx_log = []            # ("w"/"r", bytes)
        self.denied = 0

    # ------------------------------------------------------------ helpers
    def set_station(self, addr):
        self.mem[0x10:0x12] = addr.to_bytes(2, "little")

    @property
    def station(self):
        return self.mem[0x10] | (self.mem[0x11] << 8)

    def configure_sms_from_registers(self):
        """derive mailbox areas from the SM registers (0x800...)"""
        self.mbx_out = self.mbx_in = None
        for i in range(self.mem[5] or 4):
            base = 0x800 + 8 * i
            start = self.mem[base] | (self.mem[base + 1] << 8)
            length = self.mem[base + 2] | (self.mem[base + 3] << 8)
            ctrl = self.mem[base + 4]
            if ctrl & 3 == 2 and length:
                if (ctrl >> 2) & 3 == 1 and self.mbx_out is None:
                    self.mbx_out = (start, length)
                elif (ctrl >> 2) & 3 == 0 and self.mbx_in is None:
                    self.mbx_in = (start, length)

    def post_mail(self, message, delay=0):
        """queue a message (header + data) for the master"""
        self.mbx_in_queue.append([delay, bytes(message)])

    # ------------------------------------------------------------- access
    def read(self, addr, n):
        end = addr + n
        if end > 0x10000:
            return None
        if addr <= 0x130 < end or addr <= 0x131 < end:
            self._al_poll()
        self._al_refresh()
        if addr <= 0x502 < end or addr <= 0x503 < end:
            self._ee_poll()
        if addr < 0x810 and end > 0x800:
            self._sm_refresh(poll=addr <= 0x80D < end)
        if self.mbx_in is not None:
            off, size = self.mbx_in
            if addr < off + size and end > off:
                ret = self._mbx_read(addr, n)
                self.log.append(("r", addr, ret))
                return ret
        ret = bytes(self.mem[addr:end])
        self.log.append(("r", addr, ret))
        return ret

    def write(self, addr, data):
        n = len(data)
        end = addr + n
        if end > 0x10000:
            return False
        if self.mbx_out is not None:
            off, size = self.mbx_out
            if addr < off + size and end > off:
                ok = self._mbx_write(addr, bytes(data))
                self.log.append(("w", addr, bytes(data), ok))
                return ok
        self.mem[addr:end] = data
        self.log.append(("w", addr, bytes(data), True))
        if addr <= 0x120 < end:
            self._al_control(self.mem[0x120] | (self.mem[0x121] << 8))
        if addr <= 0x502 < end or addr <= 0x503 < end:
            self._ee_command()
        if addr < 0x800 + 8 * 16 and end > 0x800:
            self.configure_sms_from_registers()
        return True

    # ----------------------------------------------------------------- AL
    def _al_control(self, value):
        req = value & 0xf
        ack = bool(value & 0x10)
        self.al_writes = getattr(self, "al_writes", 0) + 1
        if self.al_error and not ack:
            return   # requests are ignored until the error is acknowledged
        if req not in (INIT, PREOP, BOOT, SAFEOP, OP):
            self.al_error = True
            self.al_code = 0x11   # invalid requested state change
            return
        if self.al_refuse is not None:
            code = self.al_refuse(self.al_state, req)
            if code:
                self.al_error = True
                self.al_code = code
                return
        delay = self.al_delay(self.al_state, req)
        if ack and getattr(self, "al_ack_clears_first", False):
            # the flag goes at once, the state follows after the delay
            self.al_error = False
            self.al_code = 0
        self.al_pending = [req, delay, ack]
        if delay == 0:
            self._al_complete()

    def _al_complete(self):
        req, _, ack = self.al_pending
        self.al_pending = None
        self.al_state = req
        if ack:
            self.al_error = False
            self.al_code = 0

    def _al_poll(self):
        self.al_status_reads += 1
        if self.al_error_at is not None \
                and self.al_status_reads == self.al_error_at:
            self.al_error = True
            # sync manager watchdog; some devices leave the code at 0
            self.al_code = getattr(self, "al_error_code", 0x1b)
            self.al_pending = None
            if self.al_state > SAFEOP or self.al_state == OP:
                self.al_state = SAFEOP
        if self.al_pending is not None:
            if self.al_pending[1] <= 0:
                self._al_complete()
            else:
                self.al_pending[1] -= 1

    def _al_refresh(self):
        # bit 5: device identification value loaded (ETG.1000.6, AL status)
        self.mem[0x130] = self.al_state | (0x10 if self.al_error else 0) \
            | (getattr(self, "al_status_extra", 0) & 0x20)
        self.mem[0x131] = 0
        self.mem[0x134:0x136] = self.al_code.to_bytes(2, "little")

    # ------------------------------------------------------------- EEPROM
    def _ee_status(self, busy):
        v = (0x40 if self.ee_eight else 0) | (0x8000 if busy else 0) \
            | getattr(self, "ee_status_extra", 0)
        self.mem[0x502:0x504] = v.to_bytes(2, "little")

    def _ee_poll(self):
        if self.ee_idle_busy > 0:
            self.ee_idle_busy -= 1
            self._ee_status(True)
            return
        if self.ee_polls_left > 0:
            self.ee_polls_left -= 1
            self._ee_status(True)
            # data register not valid yet
            self.mem[0x508:0x510] = bytes([self.ee_garbage]) * 8
            return
        if getattr(self, "ee_loaded", None) is not None:
            self.mem[0x508:0x510] = self.ee_loaded
        self._ee_status(False)

    def _ee_command(self):
        ctrl = self.mem[0x502] | (self.mem[0x503] << 8)
        if self.ee_idle_busy > 0 or self.ee_polls_left > 0:
            # the interface ignores commands while it is busy
            self.ee_ignored = getattr(self, "ee_ignored", 0) + 1
            return
        if ctrl & 0x100:   # read
            word = int.from_bytes(self.mem[0x504:0x508], "little")
            n = 8 if self.ee_eight else 4
            chunk = self.eeprom[2 * word:2 * word + n]
            chunk += b"\xff" * (n - len(chunk))
            if n == 4:
                chunk += bytes([self.ee_garbage ^ 0xff]) * 4
            self.ee_loaded = bytes(chunk)
            self.ee_reads = getattr(self, "ee_reads", 0) + 1
            self.ee_polls_left = self.ee_busy()

    # ------------------------------------------------------------ mailbox
    def _sm_refresh(self, poll):
        # SM0 status 0x805, SM1 status 0x80D: bit 3 = mailbox full
        self.mem[0x805] = 8 if self.mbx_out_full else 0
        ready = False
        if self.mbx_in_queue:
            head = self.mbx_in_queue[0]
            if head[0] <= 0:
                ready = True
            elif poll:
                head[0] -= 1
        self.mem[0x80D] = 8 if ready else 0

    def _mbx_write(self, addr, data):
        off, size = self.mbx_out
        last = off + size - 1
        end = addr + len(data)
        if end > off + size or self.mbx_out_full:
            self.denied += 1
            return False
        if addr == off:
            self.mbx_out_buf = bytearray(size)
            self.mbx_out_buf[:len(data)] = data
            self.mbx_out_written = len(data)
        elif self.mbx_out_buf is not None:
            self.mbx_out_buf[addr - off:end - off] = data
        else:
            self.denied += 1
            return False   # buffer not opened at its start address
        if end - 1 == last:
            msg = bytes(self.mbx_out_buf)
            self.mbx_out_buf = None
            self.mbx_log.append(("w", msg, self.mbx_out_written))
            self._mbx_deliver(msg)
        return True

    def _mbx_deliver(self, msg):
        counter = (msg[5] >> 4) & 7
        if counter != 0 and counter == self.mbx_last_counter:
            self.mbx_repeats = getattr(self, "mbx_repeats", 0) + 1
            return   # repeated request: ignored (ETG.1000.4 mailbox repeat)
        self.mbx_last_counter = counter
        if self.mbx_server is not None:
            self.mbx_server(self, msg)

    def _mbx_read(self, addr, n):
        off, size = self.mbx_in
        if not self.mbx_in_queue or self.mbx_in_queue[0][0] > 0 \
                or addr != off:
            self.denied += 1
            return None
        msg = self.mbx_in_queue[0][1]
        buf = bytearray(size)
        buf[:min(len(msg), size)] = msg[:size]
        if n >= size:
            self.mbx_in_queue.pop(0)
            self.mbx_log.append(("r", bytes(buf)))
        else:
            self.mbx_partial_reads = getattr(self, "mbx_partial_reads", 0) + 1
        return bytes(buf[:n]) + bytes(max(0, n - size))

    # --------------------------------------------------------------- FMMU
    def fmmus(self):
        out = []
        for i in range(self.mem[4]):
            b = 0x600 + 16 * i
            m = self.mem
            if not m[b + 12] & 1:
                continue
            out.append(dict(
                no=i,
                lstart=int.from_bytes(m[b:b + 4], "little"),
                length=int.from_bytes(m[b + 4:b + 6], "little"),
                lbit=m[b + 6], sbit=m[b + 7],
                pstart=int.from_bytes(m[b + 8:b + 10], "little"),
                pbit=m[b + 10], type=m[b + 11]))
        return out


class Bus:
    def __init__(self, terminals):
        self.terminals = list(terminals)
        self.datagrams = 0

    def process(self, cmd, addr, data, wkc):
        """apply one datagram; return (addr, data, wkc) as they come back"""
        self.datagrams += 1
        data = bytearray(data)
        adp = addr & 0xffff
        ado = addr >> 16
        n = len(data)
        if cmd in (1, 2, 3):          # APRD APWR APRW
            for i, t in enumerate(self.terminals):
                if (adp + i) & 0xffff == 0:
                    wkc += self._rw(t, cmd - 0, ado, data)
            adp = (adp + len(self.terminals)) & 0xffff
            addr = adp | (ado << 16)
        elif cmd in (4, 5, 6):        # FPRD FPWR FPRW
            for t in self.terminals:
                if t.station == adp:
                    wkc += self._rw(t, cmd - 3, ado, data)
        elif cmd in (7, 8, 9):        # BRD BWR BRW
            acc = bytearray(n)
            orig = bytes(data)
            for t in self.terminals:
                d = bytearray(orig)
                wkc += self._rw(t, cmd - 6, ado, d)
                if cmd != 8:
                    for k in range(n):
                        acc[k] |= d[k]
            if cmd != 8:
                data = bytearray(a | b for a, b in zip(acc, orig)) \
                    if cmd == 7 else acc
            adp = (adp + len(self.terminals)) & 0xffff
            addr = adp | (ado << 16)
        elif cmd in (10, 11, 12):     # LRD LWR LRW
            for t in self.terminals:
                rd = wr = False
                for f in t.fmmus():
                    lo = max(addr, f["lstart"])
                    hi = min(addr + n, f["lstart"] + f["length"])
                    if lo >= hi:
                        continue
                    p = f["pstart"] + (lo - f["lstart"])
                    if f["type"] & 1 and cmd in (10, 12):
                        data[lo - addr:hi - addr] = t.mem[p:p + hi - lo]
                        t.log.append(("lr", p, bytes(t.mem[p:p + hi - lo])))
                        rd = True
                    if f["type"] & 2 and cmd in (11, 12):
                        t.mem[p:p + hi - lo] = data[lo - addr:hi - addr]
                        t.log.append(("lw", p, bytes(data[lo - addr:hi - addr])))
                        wr = True
                wkc += (1 if rd else 0) + (2 if wr and cmd == 12
                                           else 1 if wr else 0)
        # NOP (0), ARMW/FRMW (13, 14) and unknown commands: not processed
        return addr, bytes(data), wkc & 0xffff

    @staticmethod
    def _rw(t, kind, ado, data):
        """kind 1 read, 2 write, 3 read-write; returns wkc increment"""
        inc = 0
        if kind in (1, 3):
            r = t.read(ado, len(data))
            if r is not None:
                new = r
                inc += 1
            else:
                new = None
        if kind in (2, 3):
            if t.write(ado, bytes(data)):
                inc += 2 if kind == 3 else 1
        if kind in (1, 3) and new is not None:
            data[:] = new
        return inc

    def process_frame(self, frame, faults=None):
        """run a whole frame through the bus, return the frame coming back"""
        length, ftype, dgs, end = frames.parse(frame)
        out = bytearray(frame)
        for i, d in enumerate(dgs):
            if faults and faults.get("skip") and i in faults["skip"]:
                continue
            addr, data, wkc = self.process(d.cmd, d.addr, d.data, d.wkc)
            out[d.hdr_pos + 2:d.hdr_pos + 6] = addr.to_bytes(4, "little")
            out[d.data_pos:d.wkc_pos] = data
            out[d.wkc_pos:d.wkc_pos + 2] = wkc.to_bytes(2, "little")
        return bytes(out)


# ---------------------------------------------------------------- attaching

class NotProcessed(Exception):
    pass


async def serve_datagrams(ec, bus, latency=None, error_cls=None):
    """datagram-level attach: drain ec.send_queue, answer the futures.

    Stands in for EtherCat.sendloop/process_packet: a request whose working
    counter stays 0 fails with EtherCatError, like process_packet does."""
    from ebpfcat.ethercat import EtherCatError
    while True:
        cmd, data, idx, pos, offset, future = await ec.send_queue.get()
        addr = (pos & 0xffff) | ((offset & 0xffff) << 16)
        _, out, wkc = bus.process(cmd.value, addr, data, 0)
        k = latency() if latency is not None else 0
        for _ in range(k):
            await asyncio.sleep(0)
        if future.done():
            continue
        if wkc == 0:
            future.set_exception(EtherCatError("datagram was not processed"))
        else:
            future.set_result(out)


class FakeSock:
    def __init__(self):
        self.bound = []

    def bind(self, addr):
        self.bound.append(addr)


class FakeTransport:
    """frame-level attach: sendto -> bus -> datagram_received"""
    def __init__(self, loop, bus, protocol=None, latency=None, fault=None):
        self.loop = loop
        self.bus = bus
        self.protocol = protocol
        self.latency = latency      # callable(frame_no) -> seconds or None
        self.fault = fault          # callable(frame_no, frame) -> dict
        self._sock = FakeSock()
        self.sent = []
        self.closed = False

    def sendto(self, data, addr=None):
        data = bytes(data)
        no = len(self.sent)
        self.sent.append(data)
        fault = self.fault(no, data) if self.fault else {}
        if fault.get("send_error"):
            raise OSError(105, "No buffer space available")
        if fault.get("lose"):
            return
        back = self.bus.process_frame(data, fault)
        delay = self.latency(no) if self.latency else None
        copies = 2 if fault.get("duplicate") else 1
        for _ in range(copies):
            if delay:
                self.loop.call_later(delay, self._deliver, back, addr)
            else:
                self.loop.call_soon(self._deliver, back, addr)

    def _deliver(self, data, addr):
        if not self.closed and self.protocol is not None:
            self.protocol.datagram_received(data, addr)

    def close(self):
        self.closed = True

    def get_extra_info(self, name, default=None):
        return default


def connect_frame_level(ec, loop, bus, **kw):
    """give a real EtherCat instance a fake transport; starts its sendloop"""
    ec.send_queue = asyncio.Queue()
    tr = FakeTransport(loop, bus, ec, **kw)
    ec.connection_made(tr)
    return tr
