"""C07 Packet variables access exactly their declared bytes and byte order

domain : XDP programs guarded by minimumPacketSize G in 1..200 or by explicit
         packetSize comparisons (> >= < <=); PacketVar(p, fmt) for fmt in
         B H I Q b h i q x {native, <, >, !} and packet array elements
         pB pH pI pQ with p + size <= G; operations read (into a 64 bit map
         variable), write (constant, map variable, expression), in-place
         update and comparison with a small non-negative constant (with /
         Else); packets of every length around the guard with random bytes.
oracle : struct on a copy of the packet; all other bytes unchanged; the body
         runs when the guard's documented meaning says so and never when the
         packet is shorter than the accesses need.
"""
import struct

from hypothesis import strategies as st

from ebpfcat.arraymap import ArrayMap
from ebpfcat.ebpf import AssembleError
from ebpfcat.xdp import XDP, PacketVar, XDPExitCode

from ..gen import dsl
from ..runner import HarnessError
from ..vm import kernel

ID = "C07"
LEVEL = "exploration"
TECHNIQUE = ("property-based differential testing: generated XDP programs run "
             "in an independent interpreter and under BPF_PROG_TEST_RUN, "
             "struct.pack/unpack on a packet copy as oracle")
RULE = ("Hypothesis draws (guard form and size, packet variables / array "
        "elements with offsets and formats, a list of read / write / update "
        "operations, input values, packets with lengths G-3..G+3 and "
        "pattern contents); non-trivial = a multi-byte non-native-order access "
        "or a packet length within 1 of the guard; distinct by (guard form, "
        "formats, operation kinds, length-minus-guard set)")
ASSUMPTIONS = [
    "native byte order is little endian on this machine; '!' equals '>'",
    "reads are observed through 8 byte array-map variables (Q for unsigned, "
    "q for signed formats), writes through the packet itself",
    "for packet lengths between the accesses' need and the guard either "
    "outcome (body runs or not) is accepted",
    "packets shorter than 14 bytes are run in the interpreter only "
    "(BPF_PROG_TEST_RUN refuses them)",
    "an in-place update lowered to an atomic add on packet memory is judged "
    "in the interpreter only (the verifier refuses it: C05's subject)",
]
EXAMPLES = {"quick": 250, "thorough": 4000}
MIN_NONTRIVIAL = {"quick": 600, "thorough": 8000}

BASE = "BHIQbhiq"
SIZE = dsl.SIZES


@st.composite
def case_strategy(draw):
    form = draw(st.sampled_from(["class", "class", "gt", "ge", "lt", "le"]))
    G = draw(st.integers(1, 200) | st.sampled_from([8, 13, 14, 15, 16, 64]))
    if form != "class":
        G = max(G, 2)
    bound = G if form != "le" else G   # bytes the body may touch
    if form == "ge":
        bound = G
    nt = draw(st.integers(1, 4))
    targets = []
    for i in range(nt):
        if draw(st.integers(0, 3)) == 0:
            f = draw(st.sampled_from("BHIQ"))
            size = SIZE[f]
            if size > bound:
                f, size = "B", 1
            off = draw(st.integers(0, bound - size)
                       | st.just(bound - size))
            targets.append({"kind": "arr", "fmt": f, "off": off})
        else:
            f = draw(st.sampled_from(BASE))
            size = SIZE[f]
            if size > bound:
                f, size = draw(st.sampled_from("Bb")), 1
            order = draw(st.sampled_from(["", "<", ">", "!"]))
            off = draw(st.integers(0, bound - size)
                       | st.just(bound - size) | st.just(0))
            targets.append({"kind": "var", "name": f"p{i}",
                            "fmt": order + f, "off": off})
    nin = draw(st.integers(1, 2))
    ops = []
    nout = 0
    for _ in range(draw(st.integers(1, 6))):
        t = draw(st.integers(0, nt - 1))
        k = draw(st.sampled_from(["read", "read", "wconst", "wvar", "wexpr",
                                  "iadd", "isub", "wcopy", "cmp"]))
        if k == "read":
            ops.append(["read", t, nout])
            nout += 1
        elif k == "cmp":
            # the variable compared with a small non-negative constant
            ops.append(["cmp", t, nout,
                        draw(st.sampled_from([">", "<", ">=", "<=", "==",
                                              "!="])),
                        draw(st.sampled_from([0, 1, 5, 127, 128, 255, 256,
                                              32767, 65535, 2**31 - 1])
                             | st.integers(0, 70000))])
            nout += 1
        elif k == "wconst":
            ops.append(["wconst", t, draw(const())])
        elif k == "wvar":
            ops.append(["wvar", t, draw(st.integers(0, nin - 1))])
        elif k == "wexpr":
            ops.append(["wexpr", t, draw(st.integers(0, nin - 1)),
                        draw(st.integers(-1000, 1000))])
        elif k == "wcopy":
            ops.append(["wcopy", t, draw(st.integers(0, nt - 1))])
        else:
            ops.append([k, t, draw(st.integers(0, 70000)
                                   | st.sampled_from([1, 255, 256, 65535,
                                                      2**31 - 1, 2**31,
                                                      0xdeadbeef, 2**32 - 1,
                                                      2**32, 2**40 + 5]))])
    inputs = [draw(st.integers(0, 2**64 - 1)
                   | st.sampled_from([0, 1, 0x1234, 0x12345678,
                                      0x123456789abcdef0, 2**64 - 1, 0x80,
                                      0x8000, 0x80000000, 2**63]))
              for _ in range(nin)]
    lens = sorted(set(
        max(1, G + d) for d in draw(st.lists(st.integers(-3, 3), min_size=3,
                                             max_size=7))))
    packets = [{"len": ln, "seed": draw(st.integers(0, 255)),
                "mode": draw(st.sampled_from(["pattern", "ff", "zero",
                                              "pattern"]))} for ln in lens]
    return {"form": form, "G": G, "targets": targets, "ops": ops,
            "inputs": inputs, "packets": packets,
            "default": draw(st.sampled_from([1, 2]))}


def enumerate_cases(tier):
    """comparisons of a byte-ordered packet variable with another packet
    variable / a map variable / a constant beyond 31 bits (the right side
    needs a register of its own), and one expression object read twice"""
    packets = [{"len": 64, "seed": s, "mode": m}
               for s, m in ((1, "pattern"), (77, "pattern"), (0, "ff"),
                            (200, "pattern"), (0, "zero"))]
    for f in "HIQ":
        for oa in (">", "<", "!", ""):
            for ob in (">", "<", ""):
                targets = [{"kind": "var", "name": "p0", "fmt": oa + f,
                            "off": 16},
                           {"kind": "var", "name": "p1", "fmt": ob + f,
                            "off": 32}]
                ops = []
                n = 0
                for c in (">", "<", ">=", "<=", "==", "!="):
                    ops.append(["cmp", 0, n, c, ["t", 1]])
                    ops.append(["cmp", 1, n + 1, c, ["t", 0]])
                    n += 2
                yield {"form": "class", "G": 48, "targets": targets,
                       "ops": ops, "inputs": [5], "packets": packets,
                       "default": 1}
                ops = [["cmp", 0, 0, ">", ["i", 0]],
                       ["cmp", 0, 1, "==", ["i", 0]],
                       ["cmp", 0, 2, "<=", ["i", 1]],
                       ["twice", 0, 3, 4], ["twice", 1, 5, 6],
                       ["cmp", 0, 7, ">", 2**31 + 5 if f != "H" else 40000],
                       ["cmp", 0, 8, "<", 2**32 - 2 if f != "H" else 65000]]
                yield {"form": "gt", "G": 48, "targets": targets,
                       "ops": ops, "inputs": [0x3334, 0x33343536],
                       "packets": packets, "default": 2}


def bswap64(v):
    return int.from_bytes((v & (2**64 - 1)).to_bytes(8, "little"), "big")


def const():
    # 64 bit constants too, and those around the 32 bit immediate limits both
    # as written and as they look after a byte-order conversion
    edge = st.one_of(
        st.sampled_from([2**31, 2**31 + 1, 2**32 - 1, 2**32, 2**32 + 1,
                         0xdeadbeef, 2**63 - 1, -2**63, -2**32, -2**31 - 1,
                         0x123456789abcdef0 - 2**64, 0x0123456789abcdef]),
        st.integers(2**31, 2**32 - 1), st.integers(-2**63, 2**63 - 1))
    return st.one_of(st.integers(-200, 200),
                     st.sampled_from([0x1234, 0x12345678, -2, 2**31 - 1,
                                      -2**31, 0xff, 0x100, 0xffff]),
                     st.integers(-2**31, 2**31 - 1),
                     edge,
                     edge.map(lambda v: (lambda w: w - 2**64
                                         if w >= 2**63 else w)(bswap64(v))))


def strategy(tier):
    return case_strategy()


def order_of(fmt):
    return "big" if fmt[0] in ">!" else "little"


def tsize(t):
    return SIZE[t["fmt"][-1]]


def contents(p):
    n, s = p["len"], p["seed"]
    if p["mode"] == "ff":
        return bytearray(b"\xff" * n)
    if p["mode"] == "zero":
        return bytearray(n)
    return bytearray((s + 73 * i + (i * i >> 2)) & 0xff for i in range(n))


FACTS = set()
CMP = {">": lambda a, b: a > b, "<": lambda a, b: a < b,
       ">=": lambda a, b: a >= b, "<=": lambda a, b: a <= b,
       "==": lambda a, b: a == b, "!=": lambda a, b: a != b}


def model_read(pkt, t):
    size = tsize(t)
    raw = int.from_bytes(pkt[t["off"]:t["off"] + size], order_of(t["fmt"]))
    if t["fmt"][-1].islower() and raw >> (8 * size - 1):
        raw -= 1 << (8 * size)
        if len(t["fmt"]) > 1 and size > 1:
            FACTS.add("negative-read-of-signed-ordered-format")
    return raw


def model_write(pkt, t, value):
    size = tsize(t)
    raw = value & ((1 << (8 * size)) - 1)
    pkt[t["off"]:t["off"] + size] = raw.to_bytes(size, order_of(t["fmt"]))


def run_case(case):
    form, G, targets, ops = (case[k] for k in ("form", "G", "targets", "ops"))
    inputs = case["inputs"]
    nout = sum(1 for o in ops if o[0] == "read")
    need = max(t["off"] + tsize(t) for t in targets)

    def access(e, p, t):
        if t["kind"] == "var":
            return None
        arr = getattr(p if p is not None else e, "p" + t["fmt"])
        return arr

    def get(e, p, t):
        if t["kind"] == "var":
            return getattr(e, t["name"])
        return access(e, p, t)[t["off"]]

    def put(e, p, t, value):
        if t["kind"] == "var":
            setattr(e, t["name"], value)
        else:
            access(e, p, t)[t["off"]] = value

    def body(e, p):
        k = 0
        for o in ops:
            t = targets[o[1]]
            if o[0] == "read":
                setattr(e, f"o{o[2]}", get(e, p, t))
            elif o[0] == "twice":
                # one expression object, evaluated twice
                v = get(e, p, t)
                setattr(e, f"o{o[2]}", v)
                setattr(e, f"o{o[3]}", v)
            elif o[0] == "cmp":
                right = o[4]
                if isinstance(right, list):
                    right = get(e, p, targets[right[1]]) \
                        if right[0] == "t" else getattr(e, f"i{right[1]}")
                cond = CMP[o[3]](get(e, p, t), right)
                with cond as Else:
                    setattr(e, f"o{o[2]}", 1)
                with Else:
                    setattr(e, f"o{o[2]}", 2)
            elif o[0] == "wconst":
                put(e, p, t, o[2])
            elif o[0] == "wvar":
                put(e, p, t, getattr(e, f"i{o[2]}"))
            elif o[0] == "wexpr":
                put(e, p, t, getattr(e, f"i{o[2]}") + o[3])
            elif o[0] == "wcopy":
                put(e, p, t, get(e, p, targets[o[2]]))
            elif o[0] == "iadd":
                v = get(e, p, t)
                v += o[2]
                put(e, p, t, v)
            elif o[0] == "isub":
                v = get(e, p, t)
                v -= o[2]
                put(e, p, t, v)
        e.exit(XDPExitCode.TX)

    def program(e):
        if form == "class":
            body(e, None)
        elif form in ("gt", "ge"):
            cmp = (e.packetSize > G) if form == "gt" else (e.packetSize >= G)
            with cmp as p:
                body(e, p)
            e.exit(XDPExitCode(case["default"]))
        else:
            cmp = (e.packetSize < G) if form == "lt" else (e.packetSize <= G)
            with cmp as p:
                e.small = 1     # (an exit() here would leave the Else jump
            with p.Else:        # unreachable, which the verifier refuses)
                body(e, p)
            e.exit(XDPExitCode(case["default"]))

    ns = {"license": "GPL", "program": program, "amap": ArrayMap(),
          "defaultExitCode": XDPExitCode(case["default"])}
    if form == "class":
        ns["minimumPacketSize"] = G
    ns["small"] = ns["amap"].globalVar("Q")
    for i in range(len(inputs)):
        ns[f"i{i}"] = ns["amap"].globalVar("Q")
    outs = {}
    for o in ops:
        if o[0] == "read":
            f = targets[o[1]]["fmt"][-1]
            outs[o[2]] = "q" if f.islower() else "Q"
            ns[f"o{o[2]}"] = ns["amap"].globalVar(outs[o[2]])
        elif o[0] == "cmp":
            outs[o[2]] = "Q"
            ns[f"o{o[2]}"] = ns["amap"].globalVar("Q")
        elif o[0] == "twice":
            f = targets[o[1]]["fmt"][-1]
            for k in o[2:4]:
                outs[k] = "q" if f.islower() else "Q"
                ns[f"o{k}"] = ns["amap"].globalVar(outs[k])
    for t in targets:
        if t["kind"] == "var":
            ns[t["name"]] = PacketVar(t["off"], t["fmt"])
    kinds = sorted({o[0] for o in ops})
    classes = [f"form={form}"] + [f"op={k}" for k in kinds] + \
        sorted({"fmt=" + (t["fmt"] if t["kind"] == "var"
                          else "arr" + t["fmt"]) for t in targets})
    nonnative = any(t["kind"] == "var" and t["fmt"][0] in ">!"
                    and tsize(t) > 1 for t in targets)
    signed_swapped = any(t["kind"] == "var" and t["fmt"][0] in ">!"
                         and t["fmt"][-1] in "hiq" for t in targets)

    with kernel.tracking() as tracker:
        try:
            cls = type("P", (XDP,), ns)
            e = cls()
            loaded = dsl.Loaded(e)
        except AssembleError:
            return dict(ok=True, nontrivial=False,
                        classes=classes + ["rejected:AssembleError"])
        except HarnessError:
            raise
        except Exception as err:
            return dict(ok=True, nontrivial=False, classes=classes + [
                f"build-error:{type(err).__name__}"])
        if loaded.status == "rejected":
            return dict(ok=True, nontrivial=False,
                        classes=classes + ["rejected:AssembleError"])
        if loaded.status == "verifier":
            classes.append("verifier-rejected")
        msize = cls.__dict__["amap"].size
        fd = dsl.array_fd(tracker, msize)
        mm = e.amap
        init = bytearray(msize)
        for i, v in enumerate(inputs):
            pos = e.__dict__[f"i{i}"]
            init[pos:pos + 8] = v.to_bytes(8, "little")
        near = False
        FACTS.clear()
        for p in case["packets"]:
            L = p["len"]
            pkt = contents(p)
            if abs(L - G) <= 1:
                near = True
            obs = dsl.run_both(loaded, tracker, pkt,
                               arrays={fd: (mm, bytes(init))})
            if obs.fault:
                return fail(case, p, classes, signed_swapped,
                            f"generated code faults: {obs.fault}")
            must_run = {"class": L > G, "gt": L > G, "ge": L >= G,
                        "lt": L >= G, "le": L > G}[form]
            must_not = L < need
            ran = obs.retval == 3
            if not ran and obs.retval != case["default"]:
                return fail(case, p, classes, signed_swapped,
                            f"return code {obs.retval}, neither TX (body) "
                            f"nor the default {case['default']}")
            if must_run and not ran:
                return fail(case, p, classes, signed_swapped,
                            f"body did not run on a packet of {L} bytes "
                            f"(guard {form} {G})")
            if must_not and ran:
                return fail(case, p, classes, signed_swapped,
                            f"body ran on a packet of {L} bytes although "
                            f"its accesses need {need}")
            model = bytearray(pkt)
            exp_out = {}
            if ran:
                for o in ops:
                    t = targets[o[1]]
                    if o[0] == "read":
                        exp_out[o[2]] = model_read(model, t)
                    elif o[0] == "twice":
                        exp_out[o[2]] = exp_out[o[3]] = model_read(model, t)
                    elif o[0] == "cmp":
                        right = o[4]
                        if isinstance(right, list):
                            right = model_read(model, targets[right[1]]) \
                                if right[0] == "t" else inputs[right[1]]
                        exp_out[o[2]] = 1 if CMP[o[3]](
                            model_read(model, t), right) else 2
                    elif o[0] == "wconst":
                        model_write(model, t, o[2])
                    elif o[0] == "wvar":
                        model_write(model, t, inputs[o[2]])
                    elif o[0] == "wexpr":
                        model_write(model, t, inputs[o[2]] + o[3])
                    elif o[0] == "wcopy":
                        model_write(model, t, model_read(model,
                                                         targets[o[2]]))
                    elif o[0] == "iadd":
                        model_write(model, t, model_read(model, t) + o[2])
                    elif o[0] == "isub":
                        model_write(model, t, model_read(model, t) - o[2])
            if obs.packet != bytes(model):
                diff = [i for i, (a, b) in enumerate(zip(obs.packet, model))
                        if a != b]
                return fail(case, p, classes, signed_swapped,
                            f"packet bytes differ at {diff[:10]}: got "
                            f"{obs.packet[diff[0]:diff[0] + 8].hex()} expected "
                            f"{bytes(model[diff[0]:diff[0] + 8]).hex()} "
                            f"(ran={ran})")
            out = obs.maps[fd]
            for k, want in exp_out.items():
                pos = e.__dict__[f"o{k}"]
                got = int.from_bytes(out[pos:pos + 8], "little")
                if got != want & (2**64 - 1):
                    op = [o for o in ops if o[0] in ("read", "cmp", "twice")
                          and k in o[2:4 if o[0] == "twice" else 3]][0]
                    t = targets[op[1]]
                    if op[0] == "cmp":
                        return fail(
                            case, p, classes, signed_swapped,
                            f"`{t.get('name', t['fmt'])} {op[3]} {op[4]}` "
                            f"took the {'body' if got == 1 else 'Else' if got == 2 else 'no'}"
                            f" branch, the variable ({t['fmt']} at "
                            f"{t['off']}) holds {model_read(model, t)}",
                            read_fmt=t["fmt"])
                    return fail(case, p, classes, signed_swapped,
                                f"read of {t} gave {got:#x}, struct.unpack "
                                f"gives {want} ({want & (2**64 - 1):#x})",
                                read_fmt=t["fmt"], read_value=want)
            for i in range(len(inputs)):
                pos = e.__dict__[f"i{i}"]
                if out[pos:pos + 8] != init[pos:pos + 8]:
                    return fail(case, p, classes, signed_swapped,
                                "an input map variable changed")
        key = repr((form, sorted((t["kind"], t["fmt"]) for t in targets),
                    kinds, sorted({p["len"] - G for p in case["packets"]})))
        return dict(ok=True, nontrivial=nonnative or near, key=key,
                    classes=classes,
                    summary={"G": G, "form": form, "targets": targets,
                             "ops": ops})


def fail(case, p, classes, signed_swapped, what, **extra):
    return dict(ok=False, nontrivial=True, classes=classes,
                what=f"guard {case['form']} {case['G']}, packet len "
                     f"{p['len']}, targets {case['targets']}, ops "
                     f"{case['ops']}: {what}",
                signed_swapped=signed_swapped, facts=sorted(FACTS),
                bucket=(sorted(FACTS), what[:50]), **extra)


KNOWN = {
    # a signed multi-byte variable with an explicit byte order is read
    # without sign extension (the byte-order instruction zero-extends after
    # the load's sign extension)
    "C07-signed-ordered-read":
        lambda case, res: "negative-read-of-signed-ordered-format"
        in res.get("facts", ()),
}
