"""Random terminals, devices and sync groups (shared by C05, C18, C19, C21, C26,
C30).  A case is plain data:

  terminals: [{position, use_fmmu, in: [var...], out: [var...],
               in_off, out_off, in_pad, out_pad}]
      var = {name, size: struct letter | bit number, via: packet|process}
      (variables are laid out in order: struct variables byte aligned, bits
       in their own bytes; *_pad adds unused bytes at the end)
  devices:   [{type, links: {device attribute: [terminal index, var name]}}]
"""
import struct

from hypothesis import strategies as st

from ebpfcat import devices as ebdev
from ebpfcat.ebpfcat import (
    Device, DeviceVar, EBPFTerminal, FastEtherCat, FastSyncGroup, PacketDesc,
    ProcessDesc, SyncGroup, SyncManager, TerminalVar)

FMT_SIZE = {"B": 1, "H": 2, "I": 4, "Q": 8, "b": 1, "h": 2, "i": 4, "q": 8}


def layout(vars_):
    """byte offset of every variable; bits share bytes in groups of 8"""
    pos = 0
    out = {}
    bitbyte = None
    bitsused = set()
    for v in vars_:
        if isinstance(v["size"], int):
            if bitbyte is None or v["size"] in bitsused:
                bitbyte = pos
                pos += 1
                bitsused = set()
            bitsused.add(v["size"])
            out[v["name"]] = bitbyte
        else:
            bitbyte = None
            out[v["name"]] = pos
            pos += FMT_SIZE[v["size"]]
    return out, pos


@st.composite
def terminal_strategy(draw, index, rich=True):
    def vars_(prefix):
        n = draw(st.integers(0, 4))
        vs = []
        for i in range(n):
            if draw(st.integers(0, 2)) == 0:
                size = draw(st.sampled_from([0, 0, 1, 2, 3, 4, 5, 6, 7]))
            else:
                size = draw(st.sampled_from("BHIQbhiq" if rich else "HhIi"))
            v = {"name": f"{prefix}{i}", "size": size,
                 "via": draw(st.sampled_from(["packet", "process",
                                              "override"]))}
            if v["via"] == "override":
                # the PDO mapping read from the terminal says something else
                # (typically the whole word); the descriptor overrides it
                v["mapped"] = draw(st.sampled_from(
                    "BH" if isinstance(size, int) else "BHIQ"))
            vs.append(v)
        return vs
    return {"position": 1000 + 7 * index + draw(st.integers(0, 6)),
            "use_fmmu": draw(st.booleans()),
            "in": vars_("i"), "out": vars_("o"),
            "in_off": draw(st.sampled_from([0x1100, 0x1180, 0x1000])),
            "out_off": draw(st.sampled_from([0x1400, 0x1200, 0x1800])),
            "in_pad": draw(st.integers(0, 3)),
            "out_pad": draw(st.integers(0, 3))}


DEVICE_TYPES = ["AnalogInput", "AnalogOutput", "DigitalInput",
                "DigitalOutput", "RandomOutput", "Counter", "Motor",
                "RandomDropper", "Custom"]


DETERMINISTIC = ["AnalogInput", "AnalogOutput", "DigitalInput",
                 "DigitalOutput", "Motor", "Custom"]


@st.composite
def fast_group_strategy(draw, max_terminals=3, types=None):
    nt = draw(st.integers(1, max_terminals))
    terms = []
    for i in range(nt):
        t = draw(terminal_strategy(i))
        if terms and draw(st.integers(0, 2)) == 0:
            # another terminal of the same type as the previous one
            t = dict(terms[-1], position=t["position"])
        terms.append(t)

    def pick(direction, want_bit):
        cands = [(ti, v["name"]) for ti, t in enumerate(terms)
                 for v in t[direction]
                 if isinstance(v["size"], int) == want_bit]
        return list(draw(st.sampled_from(cands))) if cands else None

    devs = []
    for _ in range(draw(st.integers(1, 4))):
        typ = draw(st.sampled_from(types or DEVICE_TYPES))
        links = {}
        if typ == "AnalogInput":
            links["data"] = pick("in", False)
        elif typ == "AnalogOutput":
            links["data"] = pick("out", False)
        elif typ == "DigitalInput":
            links["data"] = pick("in", True)
        elif typ in ("DigitalOutput", "RandomOutput"):
            links["data"] = pick("out", True)
        elif typ == "Motor":
            links = {"velocity": pick("out", False),
                     "encoder": pick("in", False),
                     "low_switch": pick("in", True),
                     "high_switch": pick("in", True),
                     "enable": pick("out", True)}
        elif typ == "Custom":
            links = {"a": pick("in", False), "b": pick("out", False),
                     "c": pick("in", True), "d": pick("out", True)}
        if any(v is None for v in links.values()):
            continue
        devs.append({"type": typ, "links": links})
    if not devs:
        devs.append({"type": "Counter" if types is None else "Custom0",
                     "links": {}})
    return {"terminals": terms, "devices": devs}


class CustomDevice(Device):
    """copies an input to an output on both paths, like a user's device"""
    a = TerminalVar()
    b = TerminalVar()
    c = TerminalVar()
    d = TerminalVar()
    seen = DeviceVar("q")
    flag = DeviceVar("B")

    def program(self):
        self.b = self.a
        self.d = self.c
        self.seen = self.a
        with self.c:
            self.flag = 1

    def update(self):
        self.b = self.a
        self.d = self.c
        self.seen = self.a
        if self.c:
            self.flag = 1


def make_terminal(ec, spec, index, classes=None):
    """classes: the terminal classes made for this group so far - terminals
    of the same description are instances of one class (like two terminals
    of the same type on a real bus), so they share its descriptors"""
    in_pos, in_sz = layout(spec["in"])
    out_pos, out_sz = layout(spec["out"])
    ns = {}
    pdos = {}
    for direction, sm, posmap in (("in", SyncManager.IN, in_pos),
                                  ("out", SyncManager.OUT, out_pos)):
        for k, v in enumerate(spec[direction]):
            if v["via"] == "packet":
                ns[v["name"]] = PacketDesc(sm, posmap[v["name"]], v["size"])
            elif v["via"] == "override":
                idx = (0x6000 if direction == "in" else 0x7000) + 0x10 * k
                ns[v["name"]] = ProcessDesc(idx, 1, v["size"])
                pdos[idx, 1] = (sm, posmap[v["name"]], v["mapped"])
            else:
                idx = (0x6000 if direction == "in" else 0x7000) + 0x10 * k
                ns[v["name"]] = ProcessDesc(idx, 1)
                pdos[idx, 1] = (sm, posmap[v["name"]], v["size"])
    key = repr((spec["in"], spec["out"], bool(spec.get("aerotech"))))
    if classes is not None and key in classes:
        cls = classes[key]
    elif spec.get("aerotech"):
        # Aerotech style: the terminal builds its own write datagrams
        from ebpfcat.terminals import AerotechBase
        ns["in_size"] = max(1, in_sz)
        ns["out_size"] = max(1, out_sz)
        cls = type(f"GenAerotech{index}", (AerotechBase,), ns)
    else:
        cls = type(f"GenTerminal{index}", (EBPFTerminal,), ns)
    if classes is not None:
        classes[key] = cls
    t = cls(ec)
    t.name = f"T{index}"
    t.position = spec["position"]
    t.pdos = pdos
    t.use_fmmu = spec["use_fmmu"]
    t.pdo_in_sz = in_sz + (spec["in_pad"] if in_sz else 0)
    t.pdo_out_sz = out_sz + (spec["out_pad"] if out_sz else 0)
    t.pdo_in_off = spec["in_off"]
    t.pdo_out_off = spec["out_off"]
    t.layout = {"in": in_pos, "out": out_pos}
    return t


def make_device(spec, terms):
    typ = spec["type"]
    links = {k: getattr(terms[ti], name)
             for k, (ti, name) in spec["links"].items()}
    if typ in ("AnalogInput", "AnalogOutput", "DigitalInput",
               "DigitalOutput", "RandomOutput"):
        return getattr(ebdev, typ)(links["data"])
    if typ in ("Counter", "RandomDropper"):
        return getattr(ebdev, typ)()
    if typ == "Custom0":
        return Device()
    if typ == "Motor":
        m = ebdev.Motor()
    else:
        m = CustomDevice()
    for k, v in links.items():
        setattr(m, k, v)
    return m


def build_group(case, kind="fast", ec=None):
    ec = ec or FastEtherCat("verif")
    classes = {}
    terms = [make_terminal(ec, s, i, classes)
             for i, s in enumerate(case["terminals"])]
    devs = [make_device(d, terms) for d in case["devices"]]
    if kind == "fast":
        sg = FastSyncGroup(ec, devs)
    else:
        sg = SyncGroup(ec, devs)
    sg.allocate()
    return ec, terms, devs, sg


def load_fast_group(case):
    """C05: build the real FastSyncGroup program and load it"""
    from ..gen import dsl
    from ..vm import kernel
    from ebpfcat.ebpf import AssembleError
    with kernel.tracking():
        try:
            ec, terms, devs, sg = build_group(case, "fast")
        except AssembleError:
            return {"key": None}
        except OverflowError:
            return {"key": None}
        dsl.Loaded(sg)
    return {"key": repr(sorted(d["type"] for d in case["devices"]))
            + repr([(t["use_fmmu"], len(t["in"]), len(t["out"]))
                    for t in case["terminals"]])}
