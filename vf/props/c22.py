"""C22 The dispatcher keeps fast groups running under loss and injection
(also the engine of C21: every delivery is judged by check_pass)

machine : state = dispatcher counter of the group + the multiset of in-flight
          frames (<= 3); rules: deliver any in-flight frame (runs the real
          dispatcher bytecode, which tail-calls the real group program; TX
          frames go through the bus model and stay in flight, PASS frames
          leave to user space), lose one, inject a fresh sterile frame,
          deliver a foreign frame (other ethertype, EtherCAT without
          identification datagram, group number >= 64 - also one that agrees
          with a registered group in its low bits -, short frames),
          register / unregister the group program.
invariants: action in {TX, PASS}; foreign frames PASS byte-identical; a frame
          of an unregistered group that reaches user space carries the
          ethertype of its identification datagram and is returned to the bus
          at most twice in a row; for a registered group no three consecutive
          deliveries lack a run of the group program.
user space: a fifth of the cases run the real FastSyncGroup.run() loop (see
          run_userspace): what it puts on the wire must always be a fresh
          frame (write datagrams NOP, loop counter 0) - a stale frame would be
          handed straight back by the dispatcher and the group would never
          restart after a loss.
"""
import struct

from hypothesis import strategies as st

from ebpfcat.ebpf import AssembleError

from ..runner import HarnessError
from ..sim import dispatch, groups
from ..vm import kernel

ID = "C22"
LEVEL = "fault_enumeration"
TECHNIQUE = ("model-based stateful testing: Hypothesis-generated histories "
             "of deliveries / losses / injections executed on the real "
             "dispatcher and group bytecode (interpreter + kernel), plus "
             "bounded exhaustive enumeration of rule sequences in the "
             "thorough tier; invariants checked after every step")
RULE = ("Hypothesis draws (group layout, initial counter from {0,1,254,255,"
        "random}, history of <= 40 rules); thorough additionally enumerates "
        "all sequences of the 4 frame rules up to depth 7 from 4 counter "
        "values; non-trivial = a history with >= 5 deliveries including a "
        "loss or an injection or an unregistered phase; distinct by (rule "
        "kinds sequence, registration pattern, counter class)")
ASSUMPTIONS = [
    "the dispatcher's drop rate is 0 (its default)",
    "'never circulates forever' is decided as: a frame of an unregistered "
    "group is returned to the bus at most twice in a row",
    "frames with an identification datagram but a group number >= 64 are "
    "only checked for not being dropped (the statement is silent)",
    "the bus model adds the expected working counter to every enabled "
    "datagram of a frame that was sent back (off by 1, 255, 256, 513 or -1 "
    "where the case says so)",
]
EXAMPLES = {"quick": 80, "thorough": 600}
MIN_NONTRIVIAL = {"quick": 60, "thorough": 1000}
CASE_TIMEOUT = 300

RULES = ["deliver"] * 12 + ["inject"] * 4 + ["lose"] * 2 + ["foreign"] * 2 \
    + ["register", "unregister"]


def userspace_strategy():
    """the user-space half: the real FastSyncGroup.run() loop; the frames it
    gets back are the ones the kernel side handed up (write datagrams enabled,
    non-zero loop counter); some transmissions get lost"""
    return st.fixed_dictionaries({
        "kind": st.just("userspace"),
        "group": groups.fast_group_strategy(
            max_terminals=2,
            types=["AnalogOutput", "DigitalOutput", "AnalogInput", "Custom"]),
        "aerotech": st.lists(st.booleans(), min_size=2, max_size=2),
        # the ethertype this process listens on (a ParallelEtherCat process
        # that is not the first one gets a random one)
        "ethertype": st.sampled_from([0x88A4, 0x3abc, 0x5fff, 0x3000]),
        "lose": st.lists(st.integers(0, 8), max_size=2, unique=True),
        "active": st.lists(st.booleans(), min_size=4, max_size=4),
        "loopbyte": st.integers(1, 255),
    })


def with_aerotech(case):
    """the group with the terminals flagged in case["aerotech"] turned into
    Aerotech-style ones (they declare their variables by position)"""
    flags = list(case.get("aerotech") or []) + [False] * 8
    return dict(case["group"], terminals=[
        dict(t, aerotech=True,
             **{d: [dict(v, via="packet") for v in t[d]]
                for d in ("in", "out")}) if a else t
        for t, a in zip(case["group"]["terminals"], flags)])


def run_userspace(case):
    import asyncio
    import struct
    import ebpfcat.ebpfcat as ebmod
    from ebpfcat.ebpf import AssembleError
    from ..sim import cyclic
    from ..sim import loop as simloop
    from ..vm import kernel
    obs = {}
    real_mono = ebmod.monotonic
    ebmod.SyncGroup.packet_index = 1000
    classes = ["userspace"]
    if any(case.get("aerotech", [])):
        classes.append("aerotech-terminal")

    async def go(loop):
        ebmod.monotonic = loop.time
        tx = {"n": 0}

        def fault(no, frame):
            if struct.unpack_from("<I", frame, 4)[0] != rig.sg.packet_index:
                return {}
            tx["n"] += 1
            return {"lose": True} if tx["n"] - 1 in case["lose"] else {}

        def on_response(no, sent, back):
            if struct.unpack_from("<I", sent, 4)[0] != rig.sg.packet_index:
                return back
            k = sum(1 for s, r in rig.frames
                    if struct.unpack_from("<I", s, 4)[0]
                    == rig.sg.packet_index)
            if not case["active"][k % len(case["active"])]:
                return back
            # what the kernel side hands up: an activated frame
            back = bytearray(back)
            back[3] = case["loopbyte"]
            for start, stop, cmd in rig.sg.packet.on_the_fly:
                back[start] = cmd.value
            return bytes(back)

        group = with_aerotech(case)
        rig = cyclic.Rig(loop, group, "fast", fault=fault,
                         on_response=on_response)
        obs["rig"] = rig
        for t in rig.sg.terminals:
            t.fmmu_used = [None] * 4
        rig.ec.ethertype = case.get("ethertype", 0x88A4)
        task = rig.sg.start()
        for _ in range(4000):
            await asyncio.sleep(0.001)
            n = sum(1 for f in rig.transport.sent
                    if struct.unpack_from("<I", f, 4)[0]
                    == rig.sg.packet_index)
            if n >= 12 or task.done():
                break
        task.cancel()
        try:
            await task
        except asyncio.CancelledError:
            obs["end"] = "cancelled"
        except Exception as e:
            obs["end"] = f"{type(e).__name__}: {e}"
        else:
            obs["end"] = "returned"

    with kernel.tracking():
        try:
            simloop.run(go, budget=3000000)
        except (AssembleError, OverflowError):
            return dict(ok=True, nontrivial=False,
                        classes=classes + ["rejected"])
        except (simloop.LoopStalled, simloop.BudgetExceeded) as e:
            obs["end"] = f"stalled: {e!r}"
        finally:
            ebmod.monotonic = real_mono
    rig = obs.get("rig")
    if rig is None or not rig.sg.packet.data:
        return dict(ok=True, nontrivial=False, classes=classes + ["empty"])
    sent = [f for f in rig.transport.sent
            if struct.unpack_from("<I", f, 4)[0] == rig.sg.packet_index]
    writers = rig.sg.packet.on_the_fly

    def fail(what):
        return dict(ok=False, nontrivial=True, classes=classes,
                    bucket=("userspace", what[:40]),
                    what=f"user-space side: {what}; lost transmissions "
                         f"{case['lose']}, activated responses "
                         f"{case['active']}, {len(sent)} cyclic transmissions"
                         f", writers {[(a, c.name) for a, b, c in writers]}")
    if obs.get("end") != "cancelled":
        return fail(f"the group task ended as '{obs.get('end')}'")
    if len(sent) < 6:
        return fail(f"only {len(sent)} cyclic transmissions in 4 s")
    from ..sim import frames as simframes
    WRITE_CMDS = {2, 3, 5, 6, 8, 9, 11, 12, 13, 14}
    for i, f in enumerate(sent):
        bad = [start for start, stop, cmd in writers if f[start] != 0]
        if bad:
            return fail(f"cyclic transmission {i} left user space with "
                        f"enabled write datagrams at {bad}")
        # independent of the library's list of write datagrams: no datagram
        # of the frame may carry a write command
        try:
            _, _, dgs, _ = simframes.parse(f)
        except simframes.FrameError as e:
            return fail(f"cyclic transmission {i} does not parse: {e}")
        wr = [(d.cmd, d.addr) for d in dgs if d.cmd in WRITE_CMDS]
        if wr:
            return fail(f"cyclic transmission {i} left user space with the "
                        f"write datagram(s) {wr} enabled")
        if f[3] != 0:
            return fail(f"cyclic transmission {i} left user space with loop "
                        f"counter {f[3]} (a fresh frame carries 0)")
        et, = struct.unpack_from("<H", f, 12)
        if et != case.get("ethertype", 0x88A4):
            return fail(f"cyclic transmission {i} names ethertype {et:#x} "
                        f"in its identification datagram, this process "
                        f"listens on {case.get('ethertype', 0x88A4):#x} "
                        f"(the dispatcher would hand the frame to somebody "
                        f"else)")
    lost = [i for i in case["lose"] if i < len(sent) - 1]
    return dict(ok=True,
                nontrivial=bool(writers) and any(case["active"]),
                key=repr(("u", len(writers), sorted(lost), case["active"])),
                classes=classes + (["lost-transmission"] if lost else [])
                + [f"writers={min(len(writers), 4)}"],
                summary={"history": [f"{len(sent)} cyclic transmissions"],
                         "lost": lost})


def strategy(tier):
    return st.one_of(machine_strategy(), machine_strategy(),
                     machine_strategy(), machine_strategy(),
                     userspace_strategy())


def machine_strategy():
    rule = st.tuples(st.sampled_from(RULES), st.integers(0, 5),
                     st.lists(st.integers(0, 6), max_size=2))
    return st.fixed_dictionaries({
        "group": groups.fast_group_strategy(
            max_terminals=2, types=groups.DETERMINISTIC),
        "aerotech": st.lists(st.sampled_from([False, False, True]),
                             min_size=2, max_size=2),
        "counter": st.sampled_from([0, 1, 2, 254, 255, 256, 511])
        | st.integers(0, 2**32 - 1),
        "registered": st.booleans(),
        "wkc_errors": st.sampled_from([0, 1, 1, 5]),
        "wrong_delta": st.sampled_from([1, 1, 255, 256, 513, 65535]),
        "rules": st.lists(rule, min_size=3, max_size=40).map(
            lambda rs: [("inject", 0, []), ("inject", 0, [])] + rs),
    })


def enumerate_cases(tier):
    if tier != "thorough":
        return
    import itertools
    group = {"terminals": [{
        "position": 1001, "use_fmmu": False,
        "in": [{"name": "i0", "size": "H", "via": "packet"}],
        "out": [{"name": "o0", "size": "H", "via": "packet"}],
        "in_off": 0x1100, "out_off": 0x1400, "in_pad": 0, "out_pad": 0}],
        "devices": [{"type": "AnalogOutput", "links": {"data": [0, "o0"]}}]}
    for counter in (0, 1, 254, 255):
        for reg in (True, False):
            for seq in itertools.product(
                    [("deliver", 0, []), ("deliver", 1, []), ("lose", 0, []),
                     ("inject", 0, [])], repeat=7):
                yield {"group": group, "counter": counter, "registered": reg,
                       "wkc_errors": 1,
                       "rules": [["inject", 0, []], ["inject", 0, []]]
                       + [list(r) for r in seq]}


FOREIGN = ["ip", "ethercat-no-id", "group64", "short", "short-ethercat",
           "group-other", "group-high"]


def check_pass(world, before, res, registered, wkc_before, facts):
    """C21: what one pass may do to a frame.  Returns None or a message."""
    if "fault" in res:
        return f"the dispatcher / group program faults: {res['fault']}"
    after = res["frame"]
    if res["retval"] not in (dispatch.TX, dispatch.PASS):
        return f"XDP action {res['retval']} (neither TX nor PASS)"
    if len(after) != len(before):
        return "frame length changed"
    ran = res["ran_group"]
    if ran and not registered:
        return "group program ran although it is not registered"
    E = dispatch.ETH
    long_enough = len(before) >= world.sg.packet.size + E
    active = ran and long_enough and wkc_before != 0
    allowed = set()          # byte positions that may change
    allowed.add(17)          # loop index of the identification datagram
    allowed.update((12, 13))  # ethertype (PASS)
    errors = 0
    if active:
        for (start, stop, cmd) in world.writers:
            wpos = stop + E - 2
            if after[start + E] != cmd.value:
                return (f"active pass left writer at {start} with command "
                        f"{after[start + E]}, not {cmd.value}")
            if after[wpos:wpos + 2] != b"\0\0":
                return f"active pass did not clear the writer's counter"
            cur = before[wpos] | (before[wpos + 1] << 8)
            if cur != world.expected[stop - 2]:
                errors += 1
            allowed.update((start + E, wpos, wpos + 1))
        for a, b in world.regions:
            allowed.update(range(a, b))   # the devices' business (C19)
        if world.wkc_errors != (wkc_before + errors) & 0xffffffff:
            return (f"wkc_errors went from {wkc_before} to "
                    f"{world.wkc_errors}, but {errors} writer(s) had a "
                    f"wrong working counter")
    else:
        if world.wkc_errors != wkc_before:
            return (f"wkc_errors changed from {wkc_before} to "
                    f"{world.wkc_errors} in a pass that did not process the "
                    f"frame with output enabled")
    for i, (x, y) in enumerate(zip(before, after)):
        if x != y and i not in allowed:
            return (f"byte {i} changed from {x:#x} to {y:#x} in a"
                    f"{'n active' if active else ' passive'} pass (group "
                    f"program ran: {ran}, output enabled: "
                    f"{wkc_before != 0})")
    if res["retval"] == dispatch.TX:
        enabled = world.writer_enabled(after)
        was = world.writer_enabled(before)
        if any(e and not w for e, w in zip(enabled, was)) and not active:
            return "a writer was enabled without an active pass"
        if any(enabled) and not ran:
            facts.add("enabled-writer-returned-without-group-run")
            return ("a frame went back to the bus with an enabled write "
                    "datagram although the group program did not process "
                    "it in this pass")
    return None


def run_case(case, only_c21=False):
    if case.get("kind") == "userspace":
        return run_userspace(case)
    classes = []
    facts = set()
    stats = {"active": 0, "errors": 0, "output-disabled-runs": 0,
             "passive": 0, "short": 0}
    if any(case.get("aerotech") or []):
        classes.append("aerotech-terminal")
    with kernel.tracking() as tracker:
        try:
            world = dispatch.World(with_aerotech(case), tracker)
        except (AssembleError, OverflowError):
            return dict(ok=True, nontrivial=False,
                        classes=["rejected:AssembleError"])
        world.counter = case["counter"]
        world.wkc_errors = case["wkc_errors"]
        world.register(case["registered"])
        inflight = []
        kinds = []
        fifo = True             # every delivery took the oldest frame
        since_run = 0           # deliveries of group frames without group run
        returned_in_row = 0     # unregistered: TX without injection between
        deliveries = 0
        E = dispatch.ETH

        def fail(what):
            return dict(ok=False, nontrivial=True, classes=classes,
                        facts=sorted(facts),
                        what=f"{what}; history {kinds[-12:]}, counter "
                             f"{case['counter']}, registered at start "
                             f"{case['registered']}, writers "
                             f"{len(world.writers)}")

        for rule, k, extra in case["rules"]:
            if rule == "inject":
                if len(inflight) >= 3:
                    continue
                fr = world.fresh_frame()
                if any(world.writer_enabled(fr)):
                    return fail("a fresh frame from user space has an "
                                "enabled write datagram")
                inflight.append(fr)
                kinds.append("I")
                returned_in_row = 0
            elif rule == "lose":
                if not inflight:
                    continue
                inflight.pop(k % len(inflight))
                kinds.append("L")
            elif rule == "register":
                world.register(True)
                kinds.append("R")
                since_run = 0
            elif rule == "unregister":
                world.register(False)
                kinds.append("U")
                returned_in_row = 0
            elif rule == "foreign":
                kind = FOREIGN[(k + 6 * len(extra) + sum(extra)) % len(FOREIGN)]
                fr = world.fresh_frame()
                judged_identical = True
                if kind == "ip":
                    fr[12:14] = b"\x08\x00"
                elif kind == "ethercat-no-id":
                    fr[16] = 4         # first datagram is a real command
                elif kind == "group64":
                    struct.pack_into("<I", fr, 18, 64 + k)
                    judged_identical = False
                elif kind == "group-other":
                    struct.pack_into("<I", fr, 18, (world.group_no + 1) % 64)
                    judged_identical = False
                elif kind == "group-high":
                    # a group number that only agrees with ours in its low bits
                    struct.pack_into("<I", fr, 18, world.group_no
                                     + (0x10000 << (k % 3) * 4) * (1 + k % 2))
                    judged_identical = False
                elif kind == "short":
                    fr = fr[:20]
                    fr[12:14] = b"\x08\x06"
                else:
                    fr = fr[:24]
                wk, gs, ds = world.wkc_errors, bytes(world.gstate), \
                    bytes(world.dstate)
                res = world.deliver(fr)
                kinds.append("F:" + kind)
                if "fault" in res:
                    return fail(f"foreign frame ({kind}): {res['fault']}")
                if res["retval"] not in (dispatch.TX, dispatch.PASS):
                    return fail(f"foreign frame ({kind}) got XDP action "
                                f"{res['retval']}")
                if judged_identical:
                    if res["retval"] != dispatch.PASS \
                            or res["frame"] != bytes(fr):
                        return fail(f"foreign frame ({kind}) did not pass "
                                    f"unchanged (action {res['retval']})")
                    if bytes(world.gstate) != gs or bytes(world.dstate) != ds:
                        return fail(f"foreign frame ({kind}) changed the "
                                    f"maps")
                if kind in ("group64", "group-high"):
                    # a group that cannot have a program: the frame must reach
                    # user space, with the ethertype of its identification
                    # datagram, after at most two more rounds
                    rounds = 0
                    cur = res
                    while cur["retval"] == dispatch.TX and rounds < 3:
                        rounds += 1
                        cur = world.deliver(world.bus_pass(cur["frame"],
                                                           set()))
                        if "fault" in cur:
                            return fail(f"foreign frame ({kind}): "
                                        f"{cur['fault']}")
                    if cur["retval"] != dispatch.PASS:
                        return fail(f"a frame of group "
                                    f"{struct.unpack_from('<I', fr, 18)[0]:#x}"
                                    f" (no program can be registered for it) "
                                    f"was returned to the bus {rounds + 1} "
                                    f"times in a row instead of reaching user "
                                    f"space")
                    if cur["frame"][12:14] != struct.pack("!H",
                                                          world.ethertype):
                        return fail(f"foreign frame ({kind}) reached user "
                                    f"space with ethertype "
                                    f"{cur['frame'][12:14].hex()}")
                    world.dstate[:] = ds
                    world.gstate[:] = gs
                    world.wkc_errors = wk
                if kind == "group-other":
                    world.dstate[:] = ds    # another group's counter
            else:   # deliver
                if not inflight:
                    continue
                if k % len(inflight):
                    fifo = False
                fr = inflight.pop(k % len(inflight))
                wk = world.wkc_errors
                reg = world.registered
                res = world.deliver(fr)
                deliveries += 1
                kinds.append("D")
                msg = check_pass(world, bytes(fr), res, reg, wk, facts)
                if msg:
                    return fail(msg)
                if res["ran_group"] and wk != 0 and world.writers:
                    stats["active"] += 1
                    stats["errors"] += (world.wkc_errors - wk) & 0xffffffff
                elif res["ran_group"]:
                    stats["output-disabled-runs"] += 1
                else:
                    stats["passive"] += 1
                if res["ran_group"]:
                    since_run = 0
                    kinds[-1] = "D*"
                else:
                    since_run += 1
                if reg and since_run > 2 and not only_c21:
                    if not fifo and since_run == 3:
                        facts.add("three-without-run-under-reordering")
                    return fail(f"{since_run} consecutive deliveries of the "
                                f"group's frames without a run of its "
                                f"program (deliveries in ring order so far: "
                                f"{fifo})")
                if res["retval"] == dispatch.TX:
                    kinds[-1] += "t"
                    if not reg:
                        returned_in_row += 1
                        if returned_in_row > 2 and not only_c21:
                            return fail("a frame of an unregistered group "
                                        "was returned to the bus three "
                                        "times in a row")
                    inflight.append(world.bus_pass(
                        res["frame"], set(extra),
                        case.get("wrong_delta", 1)))
                else:
                    kinds[-1] += "p"
                    returned_in_row = 0
                    got = res["frame"][12:14]
                    want = struct.pack("!H", world.ethertype)
                    if got != want:
                        return fail(f"frame handed to user space carries "
                                    f"ethertype {got.hex()}, the "
                                    f"identification datagram says "
                                    f"{want.hex()}")
        world.register(False)
    has = set(k[0] for k in kinds)
    classes += sorted({"rule=" + k[:1] for k in kinds})
    classes.append(f"deliveries={min(deliveries, 10)}")
    return dict(ok=True,
                nontrivial=deliveries >= 5 and bool(has & {"L", "I", "U"}),
                key=repr((kinds, case["counter"] & 0x1ff,
                          case["registered"])),
                classes=classes,
                stats=stats, writers=len(world.writers),
                summary={"history": kinds, "final_counter": world.counter,
                         "stats": stats})


KNOWN = {
    # with deliveries in an order a ring cannot produce (a frame overtaking
    # the others) two stale frames and a passive pass can follow each other:
    # three deliveries without a run.  In ring (FIFO) order the bound of two
    # holds, and no order gives more than three (abstract BFS in DESIGN.md).
    "C22-three-without-run-under-reordering":
        lambda case, res: "three-without-run-under-reordering"
        in res.get("facts", ()),
}
