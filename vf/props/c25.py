"""C25 Terminal addresses assigned by the master are unique

domain : buses of 2-12 simulated terminals, some with pre-assigned station
         addresses inside and outside a narrowed configured range (collisions
         with the master's random choice are likely, free addresses always
         exist - in a quarter of the cases exactly as many as the scan needs);
         the master's random numbers are drawn from the case;
         scan_serial_numbers and Terminal.initialize(relative=...) run
         concurrently over the real send loop with generated frame latencies.
oracle : every station-address write lies in the configured range, no address
         is written to two different terminals, at the moment of a write no
         other terminal answers at that address; finally all addresses are
         pairwise distinct and non-zero.
"""
import asyncio
import struct

from hypothesis import strategies as st

import ebpfcat.ethercat as ethercat
from ebpfcat.ethercat import EtherCat, Terminal

from ..sim import bus as simbus
from ..sim import loop as simloop

ID = "C25"
LEVEL = "exploration"
TECHNIQUE = ("schedule exploration with Hypothesis: concurrent address "
             "assignment over a simulated bus with generated latencies and "
             "case-supplied random numbers; invariant over the history of "
             "station-address writes")
RULE = ("Hypothesis draws (terminals with optional pre-assigned addresses, "
        "configured range width, the master's random choices, which "
        "operations run concurrently, frame latencies); non-trivial = at "
        "least 2 addresses were assigned and the random choices collided "
        "with a used or pre-assigned address at least once; distinct by "
        "(number of terminals, pre-assignment pattern, operation mix, "
        "collision count)")
ASSUMPTIONS = [
    "pre-assigned addresses are pairwise distinct (a sane bus)",
    "ebpfcat.ethercat.randint is replaced: terminal addresses come from the "
    "case (then count upwards so a free address is always found), packet "
    "indexes from a counter",
    "the real sendloop / process_packet run over the frame-level bus",
]
EXAMPLES = {"quick": 40, "thorough": 5000}
MIN_NONTRIVIAL = {"quick": 100, "thorough": 2000}

LO = 1000


def strategy(tier):
    return st.fixed_dictionaries({
        "width": st.integers(12, 40),
        "terms": st.lists(st.one_of(
            st.just(0), st.just(0),
            st.integers(LO, LO + 40),          # pre-assigned, maybe in range
            st.integers(5, 900)),              # pre-assigned outside
            min_size=2, max_size=12),
        "choices": st.lists(st.integers(0, 39), min_size=4, max_size=40),
        "mode": st.sampled_from(["scan", "init", "init", "twice",
                                 "scan-then-init", "both", "gentle"]),
        "latency": st.lists(st.sampled_from([0, 0, 1, 2, 3]), min_size=1,
                            max_size=6),
        "serials": st.lists(st.integers(0, 5), min_size=12, max_size=12),
        # the network stack refuses to send this frame (ENOBUFS)
        "dup_pre": st.sampled_from([False, False, False, True]),
        "send_error_at": st.none() | st.none() | st.none()
        | st.integers(0, 30),
        # the configured range has exactly as many addresses as the scan
        # needs (pre-assigned addresses then lie outside the range)
        "tight": st.sampled_from([False, False, False, True]),
        "reserve": st.sampled_from([0, 0, 1, 2, 3, 70, 260, 300]),
    })


def enumerate_cases(tier):
    """the network stack refuses one frame (ENOBUFS): every frame number of
    a scan / an initialisation of a small bus in turn"""
    for mode in ("scan", "init", "scan-then-init", "gentle"):
        for terms in ([0, 0, 1003, 0, 55, 0], [0, 1001, 0]):
            for at in range(0, 26):
                yield {"width": 20, "terms": terms,
                       "choices": [3, 3, 7, 1, 9, 12, 2, 3, 18, 4],
                       "mode": mode, "latency": [0, 1, 0, 2],
                       "serials": [0, 1, 2, 3, 4, 5] * 2, "dup_pre": False,
                       "send_error_at": at, "tight": False, "reserve": 0}


class Watched(simbus.TerminalModel):
    def __init__(self, idx, world, **kw):
        super().__init__(**kw)
        self.idx = idx
        self.world = world

    def write(self, addr, data):
        if addr <= 0x10 < addr + len(data) and len(data) >= 0x12 - addr:
            new = data[0x10 - addr] | (data[0x11 - addr] << 8)
            others = [t.station for t in self.world["terms"] if t is not self]
            self.world["writes"].append((self.idx, new, others))
        return super().write(addr, data)


def run_case(case):
    pre = list(case["terms"])
    tight = bool(case.get("tight")) and pre.count(0) >= 2
    if tight:
        pre = [a if not LO <= a <= LO + 60 else a - 500 for a in pre]
        # (one scan: two concurrent ones would need twice the addresses)
        case = dict(case, mode="scan", send_error_at=None, dup_pre=False,
                    reserve=0)
    # make pre-assigned addresses distinct
    seen = set()
    dup_pre = bool(case.get("dup_pre"))
    for i, a in enumerate(pre):
        # (leftover addresses may coincide, e.g. after hardware was swapped)
        while a and a in seen and not dup_pre:
            a += 1
        pre[i] = a
        if a:
            seen.add(a)
    dup_pre = dup_pre and len([a for a in pre if a]) != len(seen)
    n = len(pre)
    hi = LO + max(case["width"], 3 * n + len(seen) + 5)
    if case.get("reserve", 0) > 3:
        # many reservations: the range has room for them and little more, so
        # that later draws come back to reserved addresses
        hi = LO + case["reserve"] + 2 * n + len(seen) + 2
    if tight:
        hi = LO + pre.count(0) - 1
    world = {"terms": [], "writes": []}
    for i, a in enumerate(pre):
        t = Watched(i, world, station=a)
        serial = case["serials"][i]
        img = bytearray(0x82)
        img[28:32] = struct.pack("<I", serial)
        img[0x80:0x82] = b"\xff\xff"
        t.eeprom = bytes(img)
        world["terms"].append(t)
    bus = simbus.Bus(world["terms"])
    choices = list(case["choices"])
    if dup_pre:
        # the master's first draw is a leftover address two terminals share
        twice = [a for a in pre if a and pre.count(a) > 1 and LO <= a <= hi]
        if twice:
            choices.insert(0, twice[0] - LO)
    st_ = {"i": 0, "index": 5000, "collisions": 0, "asked": []}
    real_randint = ethercat.randint

    def my_randint(a, b):
        if (a, b) == (2000, 1000000000):
            st_["index"] += 1
            return st_["index"]
        i = st_["i"]
        st_["i"] += 1
        if i < len(choices):
            v = a + choices[i] % (b - a + 1)
        else:
            v = a + (i - len(choices)) % (b - a + 1)
        st_["asked"].append(v)
        return v

    lat = case["latency"]
    out = {}

    async def go(loop):
        ec = EtherCat("verif")
        ec.terminal_addr_range = (LO, hi)
        simbus.connect_frame_level(
            ec, loop, bus,
            latency=lambda no: lat[no % len(lat)] / 1000 or None,
            fault=lambda no, frame: {"send_error": True}
            if no == case.get("send_error_at") else {})
        jobs = []
        # addresses the caller reserved beforehand (find_free_address
        # promises never to hand them out again); they are not on the bus
        out["reserved"] = []
        try:
            for _ in range(case.get("reserve", 0)):
                out["reserved"].append(await ec.find_free_address())
        except Exception as e:
            out["results"] = [e]
            out["used"] = set(ec.used_addresses)
            return
        if out["reserved"]:
            # the random source comes back to the values it started with
            st_["i"] = 0
        if case["mode"] in ("scan", "twice", "both"):
            jobs.append(ec.scan_serial_numbers())
        if case["mode"] == "twice":
            jobs.append(ec.scan_serial_numbers())
        if case["mode"] == "scan-then-init":
            try:
                await ec.scan_serial_numbers()
            except Exception as e:
                out["results"] = [e]
                out["used"] = set(ec.used_addresses)
                return
        if case["mode"] in ("init", "scan-then-init", "both"):
            # many terminals initialised concurrently (each one once: two
            # initialisations of the same terminal would be the caller's race)
            for i in range(n):
                t = Terminal(ec)
                jobs.append(t.initialize(relative=-i))
        if case["mode"] == "gentle":
            # the entry point for terminals shared with other users
            for i in range(n):
                jobs.append(Terminal(ec).gentle_initialize(relative=-i))
        res = await asyncio.wait_for(
            asyncio.gather(*jobs, return_exceptions=True), 120)
        out["results"] = res
        out["used"] = set(ec.used_addresses)

    try:
        ethercat.randint = my_randint
        simloop.run(go, budget=3000000)
    except (simloop.LoopStalled, simloop.BudgetExceeded,
            asyncio.TimeoutError) as e:
        out["stalled"] = repr(e)
    finally:
        ethercat.randint = real_randint

    classes = [f"n={n}", f"mode={case['mode']}"] + (
        ["send-error"] if case.get("send_error_at") is not None else []) + (
        ["coinciding-leftovers"] if dup_pre else []) + (
        ["tight-range"] if tight else []) + (
        ["reserved-before"] if case.get("reserve") else []) + [
               f"pre={sum(1 for a in pre if a)}"]

    def fail(what):
        return dict(ok=False, nontrivial=True, classes=classes,
                    what=f"{what}; pre-assigned {pre}, range ({LO}, {hi}), "
                         f"mode {case['mode']}, random choices "
                         f"{st_['asked'][:20]}, latency {lat}")

    if "stalled" in out:
        return fail(f"did not finish: {out['stalled']}")
    # after a refused send the operations may fail; the addresses are judged
    both = case["mode"] == "both" or case.get("send_error_at") is not None
    for r in out["results"]:
        # a scan running concurrently with initialisations re-addresses
        # terminals under the feet of the other (the callers' race): there
        # only the addresses themselves are judged
        if isinstance(r, BaseException) and not both:
            return fail(f"operation failed: {type(r).__name__}: {r}")
    owner = {}
    for a in out.get("reserved", []):
        if not LO <= a <= hi:
            return fail(f"find_free_address returned {a}, outside the range")
        if owner.setdefault(a, "reserved") != "reserved" \
                or out["reserved"].count(a) > 1:
            return fail(f"find_free_address returned {a} twice")
    for idx, new, others in world["writes"]:
        if not LO <= new <= hi:
            return fail(f"address {new} written to terminal {idx} lies "
                        f"outside the configured range")
        if new in others:
            return fail(f"address {new} written to terminal {idx} while "
                        f"another terminal already answers at it")
        if owner.setdefault(new, idx) != idx:
            return fail(f"address {new} handed out twice: "
                        f"{'reserved by the caller before' if owner[new] == 'reserved' else 'terminals ' + str(owner[new])}"
                        f" and terminal {idx}")
    final = [t.station for t in world["terms"]]
    if 0 in final and not both:
        return fail(f"a terminal was left without address: {final}")
    if both:
        final = [a for a in final if a]
    if dup_pre and (case["mode"] != "init" or both):
        # a scan keeps addresses that are already set, also coinciding ones:
        # only what the master hands out is judged
        final = []
    if len(set(final)) != len(final):
        return fail(f"final station addresses are not distinct: {final}")
    preset = {a for a in pre if a}
    collisions = sum(1 for i, v in enumerate(st_["asked"])
                     if v in preset or v in st_["asked"][:i])
    assigned = len(world["writes"])
    classes.append(f"collisions={min(collisions, 5)}")
    return dict(ok=True, nontrivial=assigned >= 2 and collisions >= 1,
                key=repr((n, [bool(a) for a in pre], case["mode"],
                          collisions)),
                classes=classes,
                summary={"final": final, "writes": world["writes"][:6],
                         "asked": st_["asked"][:12]})


KNOWN = {}
