#!/venv/bin/python
"""regenerate MANIFEST.json from the property modules that exist in vf/props
(developer tool; MANIFEST.json itself is committed)"""
import importlib, json, os, sys
ROOT = os.path.dirname(os.path.dirname(os.path.abspath(__file__)))
sys.path[:0] = ["/repo", ROOT]
os.environ.setdefault("PYTHONDONTWRITEBYTECODE", "1")
sys.dont_write_bytecode = True
props = [json.loads(l) for l in open(os.path.join(ROOT, "properties.jsonl"))]
pending = json.load(open(os.path.join(ROOT, "tools", "pending.json")))
checks, na = [], []
for p in props:
    pid = p["id"]
    path = os.path.join(ROOT, "vf", "props", pid.lower() + ".py")
    if not os.path.exists(path) or pid in pending.get("withdrawn", {}):
        na.append({"property_id": pid,
                   "reason": pending.get("withdrawn", {}).get(pid) or pending["default"]})
        continue
    mod = importlib.import_module(f"vf.props.{pid.lower()}")
    checks.append({
        "property_id": pid,
        "quick_cmd": f"./check {pid} --tier quick",
        "thorough_cmd": f"./check {pid} --tier thorough",
        "evidence_file": f"evidence/{pid}.json",
        "replay_cmd_template": f"./check {pid} --replay {{path}}",
        "engine": getattr(mod, "ENGINE", "runner"),
        "level_claimed": {"category": mod.LEVEL, "text": mod.LEVEL_TEXT if hasattr(mod, "LEVEL_TEXT") else mod.RULE,
                          "design_ref": f"DESIGN.md section 5 {pid}"},
        "level_note": "; ".join(mod.ASSUMPTIONS),
        "technique": mod.TECHNIQUE,
    })
man = {
    "version": 1,
    "setup_cmd": "./setup.sh",
    "hooks": {"guard": "EBPFCAT_VERIF", "enable": "no source hooks: the harness monkeypatches module-level names of ebpfcat at run time (EBPFCAT_VERIF=1 is exported by ./check for documentation only)",
              "baseline_off_cmd": "cd /repo && /venv/bin/python -m pytest -ra -q -p no:cacheprovider --timeout=900 --continue-on-collection-errors",
              "source_commits": [], "add_only": True},
    "engines": [
        {"name": "runner", "path": "vf/runner.py", "serves_properties": [c["property_id"] for c in checks],
         "kind_free_text": "Hypothesis-driven sharded case runner with replay tier, known-finding matcher and evidence writer"},
    ],
    "checks": checks,
    "not_applicable": na,
    "notes": "See DESIGN.md. Exit 2 of a check = harness error, never a violation.",
}
extra = os.path.join(ROOT, "tools", "engines.json")
if os.path.exists(extra):
    for e in json.load(open(extra)):
        e["serves_properties"] = [p for p in e["serves_properties"] if p in {c["property_id"] for c in checks}]
        if e["serves_properties"]:
            man["engines"].append(e)
json.dump(man, open(os.path.join(ROOT, "MANIFEST.json"), "w"), indent=1)
print(len(checks), "checks,", len(na), "not applicable")
