"""C27 The Valve device enforces its safe state on timeout

domain : histories (starting with a reset) of target changes, switch readings,
         clock advances, resets, take-overs of the device by a new sync group
         and update() calls; moving times 0.5, 5, 60 s;
         safe state closed (default, all switch readings) and open (only
         readings in which the switches confirm nothing, so the position
         check does not depend on how it is read for a non-default safe
         state).
oracle : the statement, transcribed, run in lock step.
"""
from hypothesis import strategies as st

import ebpfcat.devices as devices
from ebpfcat.devices import Valve
from ebpfcat.ebpfcat import (
    EBPFTerminal, PacketDesc, ProcessDesc, SimpleEtherCat, SyncGroup,
    SyncManager)

ID = "C27"
LEVEL = "exploration"
TECHNIQUE = ("model-based stateful testing: Hypothesis-generated histories "
             "run in lock step against a transcription of the statement")
RULE = ("Hypothesis draws histories (<= 40 steps after an initial reset) of "
        "target / switches / advance(dt in 1/8 s ticks around the moving "
        "time) / reset / update; non-trivial = the history contains an update "
        "whose outcome is decided by the timeout branch (elapsed vs not) or an "
        "error reaction; distinct by the sequence of (op, branch taken)")
ASSUMPTIONS = [
    "ebpfcat.devices.monotonic is replaced by a virtual clock in 1/8 s ticks "
    "(exact in binary floating point)",
    "the device runs in a slow SyncGroup whose frame buffer is set directly; "
    "switch bits are written into the frame, the coil bit is read from it",
    "for safeState=True only non-confirming switch readings (both on / both "
    "off) are generated, as the quantifier restricts the position check to "
    "the default safe state",
]
EXAMPLES = {"quick": 1000, "thorough": 8000}
MIN_NONTRIVIAL = {"quick": 400, "thorough": 4000}


class T(EBPFTerminal):
    open_sw = PacketDesc(SyncManager.IN, 0, 0)
    closed_sw = PacketDesc(SyncManager.IN, 0, 1)
    coil = PacketDesc(SyncManager.OUT, 0, 0)


class TP(EBPFTerminal):
    """the same terminal, its variables declared as bits of mapped bytes (the
    way the library's TurboVac declares pump_on / pump_is_on)"""
    open_sw = ProcessDesc(0x6000, 1, 0)
    closed_sw = ProcessDesc(0x6000, 1, 1)
    coil = ProcessDesc(0x7000, 1, 0)


def strategy(tier):
    mt = st.shared(st.sampled_from([4, 40, 480]), key="mt")   # ticks
    safe = st.shared(st.booleans(), key="safe")

    def ops(mt, safe):
        sw = st.sampled_from([[False, False], [True, True]]) if safe \
            else st.tuples(st.booleans(), st.booleans()).map(list)
        dt = st.sampled_from([0, 1, mt - 1, mt, mt + 1, 2 * mt, mt // 2]) \
            | st.integers(0, 2 * mt)
        return st.lists(st.one_of(
            st.builds(lambda v: ["target", v], st.booleans()),
            st.builds(lambda v: ["switches", v], sw),
            st.builds(lambda v: ["advance", v], dt),
            st.just(["update"]), st.just(["update"]), st.just(["update"]),
            st.just(["reset"]),
            # the device is taken over by a new sync group (reconnect); the
            # frame contents carry over
            st.just(["regroup"]),
        ), min_size=1, max_size=40)

    return st.tuples(mt, safe).flatmap(
        lambda ms: st.fixed_dictionaries({
            "moving_ticks": st.just(ms[0]), "safe_state": st.just(ms[1]),
            "ops": ops(*ms),
            "decl": st.sampled_from(["packet", "process"]),
            # the channels (bit numbers) of open switch, closed switch, coil
            "bits": st.tuples(st.integers(0, 7), st.integers(0, 7),
                              st.integers(0, 7)).filter(
                lambda b: b[0] != b[1]).map(list),
            # what the other output channels of the terminal hold
            "other_out": st.sampled_from([0, 0xff, 0x80, 0x55])}))


class Clock:
    ticks = 0
    phase = 0       # in 1/4096 s: the clock does not run on a round grid

    def __call__(self):
        return self.phase / 4096 + self.ticks / 8


def enumerate_cases(tier):
    """the decisive updates right before, at and after the moving time, on a
    clock whose readings are not multiples of a millisecond (all readings
    and their differences are exact binary fractions)"""
    for mt in (4, 40, 480):
        for safe in (False, True):
            for phase in (0, 1, 3, 5, 2047, 2049, 4095):
                for sw in ([False, False], [True, True]):
                    for start in (0, 801):
                        ops = [["advance", start], ["reset"],
                               ["switches", sw], ["target", True],
                               ["advance", mt - 1], ["update"],
                               ["advance", 1], ["update"], ["advance", 1],
                               ["update"], ["reset"], ["advance", mt],
                               ["update"], ["update"]]
                        yield {"moving_ticks": mt, "safe_state": safe,
                               "ops": ops, "decl": "packet",
                               "bits": [0, 1, 0], "other_out": 0,
                               "phase": phase}


def run_case(case):
    clock = Clock()
    clock.phase = case.get("phase", 0)
    old = devices.monotonic
    devices.monotonic = clock
    try:
        return _run(case, clock)
    finally:
        devices.monotonic = old


def _run(case, clock):
    ec = SimpleEtherCat("verif")
    ob, cb, kb = case.get("bits") or [0, 1, 0]
    if case.get("decl") == "process":
        term = type("TPb", (EBPFTerminal,), {
            "open_sw": ProcessDesc(0x6000, 1, ob),
            "closed_sw": ProcessDesc(0x6000, 1, cb),
            "coil": ProcessDesc(0x7000, 1, kb)})(ec)
        term.pdos = {(0x6000, 1): (SyncManager.IN, 0, "B"),
                     (0x7000, 1): (SyncManager.OUT, 0, "B")}
    else:
        term = type("Tb", (EBPFTerminal,), {
            "open_sw": PacketDesc(SyncManager.IN, 0, ob),
            "closed_sw": PacketDesc(SyncManager.IN, 0, cb),
            "coil": PacketDesc(SyncManager.OUT, 0, kb)})(ec)
    term.position = 9
    term.pdo_in_sz = 1
    term.pdo_out_sz = 1
    term.pdo_in_off = 0x1000
    term.pdo_out_off = 0x1100
    v = Valve()
    v.coil = term.coil
    v.openSwitch = term.open_sw
    v.closedSwitch = term.closed_sw
    v.movingTime = case["moving_ticks"] / 8
    if case["safe_state"]:
        v.safeState = True
    sg = SyncGroup(ec, [v])
    sg.allocate()
    sg.current_data = bytearray(max(46, sg.packet.size))
    in_pos = sg.pdo_assign[term][SyncManager.IN]
    out_pos = sg.pdo_assign[term][SyncManager.OUT]
    if in_pos == out_pos:
        from ..runner import HarnessError
        raise HarnessError("input and output regions coincide")
    other = case.get("other_out", 0) & ~(1 << kb) & 0xff
    sg.current_data[out_pos] = other
    safe = case["safe_state"]
    # model
    m = dict(coil=False, target=False, error=False, last_good=0)
    sw = [False, False]
    v.reset()
    m["last_good"] = clock.ticks
    trace = []
    branches = []
    regrouped = False
    for op in [["reset"]] + case["ops"]:
        if op[0] == "target":
            v.target = op[1]
            m["target"] = op[1]
        elif op[0] == "switches":
            sw = list(op[1])
            b = sg.current_data[in_pos] & ~((1 << ob) | (1 << cb))
            sg.current_data[in_pos] = b | ((1 << ob) if sw[0] else 0) \
                | ((1 << cb) if sw[1] else 0)
        elif op[0] == "advance":
            clock.ticks += op[1]
        elif op[0] == "regroup":
            frame = bytes(sg.current_data)
            sg = SyncGroup(ec, [v])
            sg.allocate()
            sg.current_data = bytearray(frame)
            if (sg.pdo_assign[term][SyncManager.IN],
                    sg.pdo_assign[term][SyncManager.OUT]) != (in_pos,
                                                              out_pos):
                from ..runner import HarnessError
                raise HarnessError("the new group has another layout")
            regrouped = True
        elif op[0] == "reset":
            v.reset()
            m["error"] = False
            m["last_good"] = clock.ticks
        elif op[0] == "update":
            opn, closed = sw
            if m["coil"]:
                confirm = opn and not closed
            else:
                confirm = closed and not opn
            if safe:
                confirm = False   # only non-confirming readings generated
            if confirm:
                m["last_good"] = clock.ticks
                m["coil"] = m["target"]
                br = "confirmed"
            elif clock.ticks - m["last_good"] < case["moving_ticks"]:
                m["coil"] = m["target"]
                br = "moving"
                if clock.ticks - m["last_good"] == case["moving_ticks"] - 1:
                    br = "moving-last-tick"
            else:
                m["error"] = True
                m["coil"] = m["target"] = safe
                br = "timeout"
                if clock.ticks - m["last_good"] == case["moving_ticks"]:
                    br = "timeout-first-tick"
            branches.append(br)
            v.update()
            coil = bool(sg.current_data[out_pos] & (1 << kb))
            target = bool(v.target)
            error = bool(v.error)
            trace.append([br, coil, target, error])
            if (coil, target, error) != (m["coil"], m["target"], m["error"]):
                return dict(
                    ok=False, nontrivial=True, classes=[br],
                    what=(f"after update #{len(branches)} (branch {br}, "
                          f"safeState={safe}, switches open/closed={sw}, "
                          f"t-lastGood={(clock.ticks - m['last_good']) / 8}s"
                          f", movingTime={case['moving_ticks'] / 8}s): coil/"
                          f"target/error = {(coil, target, error)}, expected "
                          f"{(m['coil'], m['target'], m['error'])}"),
                    safe_state=safe, branch=br, summary=trace[-5:])
            # other output bits must stay untouched
            if sg.current_data[out_pos] & ~(1 << kb) & 0xff != other:
                return dict(ok=False, nontrivial=True, classes=[br],
                            what="update changed other output bits")
    nontrivial = any(b.startswith(("moving", "timeout")) for b in branches)
    return dict(ok=True, nontrivial=nontrivial,
                key=repr((case["moving_ticks"], safe,
                          case.get("decl", "packet"), regrouped, branches)),
                classes=sorted(set(branches)) + [f"safe={safe}",
                                                 "decl=" + case.get(
                                                     "decl", "packet")] + (
                    ["second-sync-group"] if regrouped else []),
                summary=trace[-6:])


KNOWN = {}
