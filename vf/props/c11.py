"""C11 Assembled EtherCAT frames are well-formed with exact datagram positions

domain : sequences of datagrams (command, position/node or logical address,
         data length 0..max biased to the fits / does-not-fit boundary, index,
         working-counter preset) appended to a Packet / SterilePacket until
         one is rejected; then assemble(index, ethertype) and sterile(),
         also at up to three points while the packet is still growing, and
         with another packet of the same kind assembled afterwards.
oracle : independent parser (vf.sim.frames) + the statement's field rules for
         every assembled frame; a frame handed out earlier keeps its bytes.
"""
import struct

from hypothesis import strategies as st

from ebpfcat.ethercat import ECCmd, Packet
from ebpfcat.ebpfcat import SterilePacket

from ..sim import frames

ID = "C11"
LEVEL = "exploration"
TECHNIQUE = "property-based testing (Hypothesis) against an independent frame parser"
RULE = ("Hypothesis draws datagram sequences (cmd, addressing form, address, "
        "index, wkc preset, length either free 0..1486 or 'remaining capacity "
        "+k' for k in -3..3) for Packet and SterilePacket; non-trivial = at "
        "least 2 accepted datagrams or a datagram within 3 bytes of the "
        "capacity boundary; distinct by (class, per-datagram cmd/form/length "
        "class, rejection pattern)")
ASSUMPTIONS = [
    "vf.sim.frames parser is a correct reading of ETG.1000.4 frame layout",
    "the per-frame datagram count limit is read from the code by probing a "
    "fresh Packet with empty datagrams; only its consistency is checked",
    "a frame is the Ethernet payload (no 14 byte Ethernet header)",
]
EXAMPLES = {"quick": 400, "thorough": 8000}
MIN_NONTRIVIAL = {"quick": 500, "thorough": 5000}

MAXSIZE = 1500   # Ethernet payload limit, from the statement ("maximum size")
MINSIZE = 46


def dgram(small=False):
    length = st.integers(0, 8) if small else st.one_of(
        st.integers(0, 64),
        st.integers(0, 1486),
        st.builds(lambda k: {"fill": k}, st.integers(-3, 3)),
        st.builds(lambda k, d: {"fill": k, "div": d},
                  st.integers(-3, 3), st.integers(2, 6)),
    )
    addr = st.one_of(
        st.tuples(st.sampled_from([0, -1, -2, 1, 1000, 32767, -32768])
                  | st.integers(-32768, 32767),
                  st.sampled_from([0, 0x10, 0x120, 0x130, 0x800, 0xffff])
                  | st.integers(0, 65535)),
        st.tuples(st.sampled_from([0, 0x1000, 0x7fffffff, -1, -2**31,
                                   0x400000]) | st.integers(-2**31, 2**31 - 1)),
    )
    return st.fixed_dictionaries({
        "cmd": st.integers(0, 14),
        "addr": addr,
        "len": length,
        "idx": st.sampled_from([0, 1, 255]) | st.integers(0, 255),
        "wkc": st.sampled_from([0, 1, 3, 0xffff]) | st.integers(0, 65535),
        "writer": st.booleans(),
        "fillbyte": st.integers(0, 255),
    })


def strategy(tier):
    return st.fixed_dictionaries({
        "sterile": st.booleans(),
        "dgrams": st.lists(dgram(), min_size=1, max_size=20)
        | st.lists(dgram(True), min_size=13, max_size=18),
        "index": st.sampled_from([0, 1, 1000, 2**31 - 1, -1, -2**31])
        | st.integers(-2**31, 2**31 - 1),
        "ethertype": st.sampled_from([0x88A4, 0, 0xffff, 0x3000])
        | st.integers(0, 0xffff),
        "mid": st.lists(st.integers(1, 15), max_size=3),
        "other": st.integers(0, 3),
    })


_count_limit = None


def count_limit():
    """number of datagrams the code accepts into one frame, found by probing"""
    global _count_limit
    if _count_limit is None:
        p = Packet()
        n = 0
        try:
            while n < 200:
                p.append(ECCmd.NOP, b"", 0, 0, 0)
                n += 1
        except OverflowError:
            pass
        _count_limit = n
    return _count_limit


CMD_NAMES = ["NOP", "APRD", "APWR", "APRW", "FPRD", "FPWR", "FPRW", "BRD",
             "BWR", "BRW", "LRD", "LWR", "LRW", "ARMW", "FRMW"]


def payload(n, fb):
    return bytes((fb + 31 * i) & 0xff for i in range(n))


def run_case(case):
    sterile = case["sterile"]
    pkt = SterilePacket() if sterile else Packet()
    size = 16           # identification datagram: 2 + 10 + 2 + 2
    accepted = []       # (spec, data, start, stop)
    classes = ["sterile" if sterile else "plain"]
    keyparts = [sterile]
    boundary = False
    limit = count_limit()
    mid = set(case.get("mid") or [])
    held = []           # (frame object, its bytes when returned, what)
    for spec in case["dgrams"]:
        ln = spec["len"]
        capacity = MAXSIZE - size - 12
        if isinstance(ln, dict):
            ln = capacity // ln.get("div", 1) + ln["fill"]
            ln = max(0, ln)
            lenclass = "fill%+d/%d" % (spec["len"]["fill"],
                                       spec["len"].get("div", 1))
        else:
            lenclass = "z" if ln == 0 else "s" if ln <= 64 else "l"
        if abs(capacity - ln) <= 3:
            boundary = True
            classes.append("boundary%+d" % (ln - capacity))
        data = payload(ln, spec["fillbyte"])
        # the command by its name: the numbers are the specification's
        # (ETG.1000.4 table of command types), not the library's
        cmd = getattr(ECCmd, CMD_NAMES[spec["cmd"]])
        addr = tuple(spec["addr"])
        fits = size + 12 + ln <= MAXSIZE
        try:
            if sterile:
                if spec["writer"]:
                    pkt.append_writer(cmd, data, spec["idx"], *addr,
                                      counter=spec["wkc"])
                else:
                    pkt.append(cmd, data, spec["idx"], *addr,
                               counter=spec["wkc"])
                ret = None
            else:
                ret = pkt.append(cmd, data, spec["idx"], *addr,
                                 wkc=spec["wkc"])
        except OverflowError:
            keyparts.append(("rej", lenclass))
            classes.append("rejected")
            if fits and len(accepted) < limit:
                return fail(case, f"datagram of {ln} bytes rejected although "
                            f"frame would be {size + 12 + ln} <= {MAXSIZE} "
                            f"with {len(accepted)} datagrams", classes)
            continue
        if not fits:
            return fail(case, f"datagram of {ln} bytes accepted: frame size "
                        f"{size + 12 + ln} > {MAXSIZE}", classes)
        if ret is not None:
            start, stop = ret
        else:
            start = stop = None
        accepted.append((spec, data, start, stop, size))
        keyparts.append((spec["cmd"], len(addr), lenclass,
                         spec["writer"] and sterile))
        size += 12 + ln
        if len(accepted) in mid:
            # the frame is also assembled while the packet is still growing
            res = judge(case, pkt, sterile, list(accepted), size, classes,
                        held)
            if res is not None:
                res["what"] = (f"assembled after {len(accepted)} datagrams: "
                               + res["what"])
                return res
            classes.append("mid-assemble")
            keyparts.append("mid")

    if not accepted:
        return dict(ok=True, nontrivial=False, classes=classes + ["empty"])

    res = judge(case, pkt, sterile, accepted, size, classes, held)
    if res is not None:
        return res
    if case.get("other"):
        # another packet of the same kind is used in between: frames handed
        # out earlier are the caller's and keep their contents
        other = SterilePacket() if sterile else Packet()
        for k in range(case["other"]):
            other.append(ECCmd.FPRD, payload(3 + k, 17 * k), k, 7, 0x130)
        other.assemble(5, 0x88a4)
        if sterile:
            other.sterile(5, 0x88a4)
        classes.append("other-packet")
    for frame, copy, what in held:
        if bytes(frame) != copy:
            return fail(case, f"the frame returned by {what} changed "
                        f"afterwards (it was {len(copy)} bytes, now "
                        f"{len(frame)}, first difference at "
                        f"{next((i for i, (a, b) in enumerate(zip(frame, copy)) if a != b), min(len(frame), len(copy)))})",
                        classes)
    if len(held) > (2 if sterile else 1):
        classes.append("held-frames")
    classes.append(f"n={min(len(accepted), 15)}")
    return dict(ok=True, nontrivial=len(accepted) >= 2 or boundary,
                key=repr(keyparts), classes=classes,
                summary={"frame_len": len(held[-1][1]),
                         "datagrams": len(accepted),
                         "assembled": len(held)})


def judge(case, pkt, sterile, accepted, size, classes, held):
    """assemble (and sterile) now and check against the accepted datagrams"""
    index = case["index"]
    ethertype = case["ethertype"]
    try:
        frame = pkt.assemble(index, ethertype)
    except Exception as e:
        return fail(case, f"assemble() raised {type(e).__name__}: {e} on a "
                    f"packet of {len(accepted)} accepted datagrams", classes)
    res = check_frame(case, frame, accepted, size, index, ethertype, classes)
    if res is not None:
        return res
    held.append((frame, bytes(frame), f"assemble() #{len(held) + 1}"))
    if sterile:
        try:
            sframe = pkt.sterile(index, ethertype)
        except Exception as e:
            return fail(case, f"sterile() raised {type(e).__name__}: {e} on "
                        f"a packet of {len(accepted)} accepted datagrams "
                        f"(a rejected append must leave no trace)", classes)
        if len(sframe) != len(frame):
            return fail(case, "sterile copy has another length", classes)
        held.append((sframe, bytes(sframe), f"sterile() #{len(held) + 1}"))
        writers = {hdr for spec, _, _, _, hdr in accepted if spec["writer"]}
        for i, (a, b) in enumerate(zip(frame, sframe)):
            if i in writers:
                if b != 0:
                    return fail(case, f"writer command byte at {i} is {b} "
                                "in the sterile copy, not NOP", classes)
            elif a != b:
                return fail(case, f"sterile copy differs at byte {i} "
                            f"({a} -> {b}) which is no writer command",
                            classes)
        # reported positions of SterilePacket: counters and on_the_fly
        exp_counters = {hdr + 10 + len(data): spec["wkc"]
                        for spec, data, _, _, hdr in accepted}
        if dict(pkt.counters) != exp_counters:
            return fail(case, f"counters {pkt.counters} != working counter "
                        f"positions {exp_counters}", classes)
        exp_otf = [(hdr, hdr + 12 + len(data),
                    getattr(ECCmd, CMD_NAMES[spec["cmd"]]))
                   for spec, data, _, _, hdr in accepted if spec["writer"]]
        if [tuple(x) for x in pkt.on_the_fly] != exp_otf:
            return fail(case, f"on_the_fly {pkt.on_the_fly} != {exp_otf}",
                        classes)
        if writers and "has_writer" not in classes:
            classes.append("has_writer")
    return None


def check_frame(case, frame, accepted, size, index, ethertype, classes):
    if len(frame) > MAXSIZE:
        return fail(case, f"frame of {len(frame)} bytes > {MAXSIZE}", classes)
    if len(frame) < MINSIZE:
        return fail(case, f"frame of {len(frame)} bytes < {MINSIZE}", classes)
    try:
        length, ftype, dgs, end = frames.parse(frame)
    except frames.FrameError as e:
        return fail(case, f"frame does not parse: {e}", classes)
    if ftype != 1:
        return fail(case, f"frame type {ftype} != 1", classes)
    if length != end - 2:
        return fail(case, f"header length {length} != datagram area "
                    f"{end - 2}", classes)
    if end != size:
        return fail(case, f"datagram area ends at {end}, expected {size}",
                    classes)
    if len(frame) != max(MINSIZE, end):
        return fail(case, f"frame length {len(frame)} != "
                    f"max({MINSIZE}, {end})", classes)
    if len(dgs) != len(accepted) + 1:
        return fail(case, f"{len(dgs)} datagrams in frame, "
                    f"{len(accepted)} + identification expected", classes)
    # identification datagram
    d0 = dgs[0]
    if (d0.cmd, d0.addr, d0.length, d0.more) != \
            (0, index & 0xffffffff, 2, True) \
            or d0.data != struct.pack("<H", ethertype) or d0.wkc != 0:
        return fail(case, f"identification datagram wrong: {d0.as_dict()} "
                    f"data={d0.data.hex()}", classes)
    for i, (d, (spec, data, start, stop, hdr)) in enumerate(
            zip(dgs[1:], accepted)):
        last = i == len(accepted) - 1
        addr = spec["addr"]
        if len(addr) == 2:
            exp_addr = (addr[0] & 0xffff) | (addr[1] << 16)
        else:
            exp_addr = addr[0] & 0xffffffff
        what = None
        if d.cmd != spec["cmd"]:
            what = f"command {d.cmd} != {spec['cmd']}"
        elif d.idx != spec["idx"]:
            what = f"index {d.idx} != {spec['idx']}"
        elif d.addr != exp_addr:
            what = f"address {d.addr:#x} != {exp_addr:#x}"
        elif d.length != len(data):
            what = f"length {d.length} != {len(data)}"
        elif d.more != (not last):
            what = f"more flag {d.more} on datagram {i + 1}/{len(accepted)}"
        elif d.circ or d.reserved:
            what = "reserved/circulating bits set"
        elif d.irq != 0:
            what = f"irq field {d.irq}"
        elif d.data != data:
            what = "data bytes differ"
        elif d.wkc != spec["wkc"]:
            what = f"working counter {d.wkc} != preset {spec['wkc']}"
        elif d.hdr_pos != hdr:
            what = f"datagram at {d.hdr_pos}, expected {hdr}"
        elif start is not None and (start, stop) != (d.data_pos, d.wkc_pos):
            what = (f"append reported data at {(start, stop)}, frame has it "
                    f"at {(d.data_pos, d.wkc_pos)}")
        if what:
            return fail(case, f"datagram {i + 1}: {what}", classes)
    return None


def fail(case, what, classes):
    return dict(ok=False, nontrivial=True, what=what, classes=classes)


KNOWN = {}
