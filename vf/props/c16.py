"""C16 SDO transfers carry values byte-for-byte

domain : mailbox sizes 24..256 (out and in independently); objects of length
         0 .. 3 x mailbox + 7 (biased to 0-4, 5, the normal-transfer limit +-1,
         segment multiples +-1, short last segments); with subindex and with
         complete access; response delays; unrelated (non-CoE) mail before
         responses; servers answering small objects expedited or normal.
oracle : an ETG.1000.6 SDO server model (vf/sim/sdo.py): after sdo_write the
         object holds exactly the data, sdo_read returns exactly the object,
         toggles alternate from 0, no message exceeds the mailbox.
"""
import asyncio
import struct

from hypothesis import strategies as st

from ebpfcat.ethercat import (
    ECDataType, EtherCat, EtherCatError, ObjectEntry, Terminal)
from ebpfcat.lock import MailboxLock

from ..sim import bus as simbus
from ..sim import loop as simloop
from ..sim import sdo as simsdo

ID = "C16"
LEVEL = "exploration"
TECHNIQUE = ("property-based testing of the real Terminal.sdo_read/sdo_write "
             "against a protocol-conformant SDO server model (validated by a "
             "reference client)")
RULE = ("Hypothesis draws (mailbox sizes, a list of read/write operations "
        "with value length classes relative to the mailbox, subindex or "
        "complete access, server response style, delays, unrelated mail); "
        "non-trivial = a transfer that is normal or segmented, or uses "
        "complete access, or had a delayed / interleaved response; distinct "
        "by (op, transfer kind, length class, access kind, mailbox sizes)")
ASSUMPTIONS = [
    "the server model is tolerant: a normal download without complete size "
    "is accepted and extended by following segments; aborts are sent for a "
    "wrong toggle or unknown command, as a real terminal would",
    "any exception from sdo_read / sdo_write on an existing object is a "
    "failure: the value did not get through to the caller",
    "objects exist; reads of missing objects are not generated",
]
EXAMPLES = {"quick": 80, "thorough": 8000}
MIN_NONTRIVIAL = {"quick": 150, "thorough": 2000}


@st.composite
def case_strategy(draw):
    # (mailboxes beyond 256 bytes exist as well: up to 1486 fit a frame)
    out_sz = draw(st.sampled_from([24, 32, 40, 64, 128, 256])
                  | st.integers(24, 256)
                  | st.sampled_from([257, 300, 512, 1024, 1400]))
    in_sz = draw(st.sampled_from([24, 32, 40, 64, 128, 256])
                 | st.integers(24, 256)
                 | st.sampled_from([257, 300, 512, 1024, 1400]))
    ops = []
    for _ in range(draw(st.integers(1, 4))):
        op = draw(st.sampled_from(["read", "write"]))
        mbx = in_sz if op == "read" else out_sz
        first = mbx - 16
        seg = mbx - 9
        length = draw(st.one_of(
            st.integers(0, 5),
            st.sampled_from([first - 1, first, first + 1, first + 2,
                             first + seg - 1, first + seg, first + seg + 1,
                             first + 2 * seg, first + 2 * seg + 3,
                             first + seg + 6, first + 7, first + 8]),
            st.integers(0, 3 * mbx + 7)))
        o = {"op": op, "len": max(0, length),
             "sub": draw(st.none() | st.integers(0, 10)),
             "seed": draw(st.integers(0, 255))}
        if draw(st.integers(0, 5)) == 0:
            # through the typed ObjectEntry interface of the object dictionary
            dtype, bits = draw(st.sampled_from(ENTRY_TYPES))
            fmt = ECDataType[dtype].fmt
            lo, hi = (0, 1) if fmt == "?" else dsl_range(fmt)
            if dtype.startswith("BIT"):
                hi = (1 << bits) - 1
            o.update(entry={"dtype": dtype, "bits": bits,
                            "value": draw(st.integers(lo, hi))},
                     len=struct.calcsize("<" + fmt),
                     sub=draw(st.integers(0, 10)))
        ops.append(o)
    return {"out_sz": out_sz, "in_sz": in_sz, "ops": ops,
            "prefer_normal": draw(st.booleans()),
            "delays": draw(st.lists(st.integers(0, 3), min_size=1,
                                    max_size=4)),
            "noise": draw(st.lists(st.booleans(), min_size=1, max_size=3))}


def strategy(tier):
    return case_strategy()


def selftest():
    simsdo.selftest()


def value(n, seed):
    return bytes((seed + 11 * i + (i >> 3)) & 0xff for i in range(n))


ENTRY_TYPES = [("BOOLEAN", 1), ("INTEGER8", 8), ("UNSIGNED8", 8),
               ("INTEGER16", 16), ("UNSIGNED16", 16), ("INTEGER32", 32),
               ("UNSIGNED32", 32), ("INTEGER64", 64), ("UNSIGNED64", 64),
               ("BIT1", 1), ("BIT2", 2), ("BIT4", 4), ("BIT7", 7),
               ("BIT8", 8)]


def dsl_range(fmt):
    n = 8 * struct.calcsize("<" + fmt)
    return (-(1 << n - 1), (1 << n - 1) - 1) if fmt.islower() \
        else (0, (1 << n) - 1)


def op_bytes(op):
    """the value bytes of the transfer"""
    e = op.get("entry")
    if e:
        return struct.pack("<" + ECDataType[e["dtype"]].fmt, e["value"])
    return value(op["len"], op["seed"])


def entry_of(t, index, op):
    e = op["entry"]
    oe = ObjectEntry(t, index)
    oe.valueInfo = op["sub"]
    oe.dataType = ECDataType[e["dtype"]]
    oe.bitLength = e["bits"]
    oe.name = "generated"
    oe.objectAccess = 0x3f
    return oe


def kind_of(op, n, case):
    mbx = case["in_sz"] if op["op"] == "read" else case["out_sz"]
    if op["op"] == "write":
        if n <= 4 and op["sub"] is not None:
            return "expedited"
    elif n <= 4 and not case["prefer_normal"] and n > 0:
        return "expedited"
    return "normal" if n <= mbx - 16 else "segmented"


def run_case(case):
    term = simbus.TerminalModel(station=44)
    objects = {}
    for i, op in enumerate(case["ops"]):
        index = 0x2000 + i
        if op["op"] == "read":
            v = op_bytes(op)
            if op["sub"] is None:
                # complete access: split over subindexes 1..3
                cut = [len(v) // 3, 2 * len(v) // 3]
                objects[index, 0] = b"\x03"
                objects[index, 1] = v[:cut[0]]
                objects[index, 2] = v[cut[0]:cut[1]]
                objects[index, 3] = v[cut[1]:]
            else:
                objects[index, op["sub"]] = v
    srv = simsdo.SdoServer(objects, prefer_normal=case["prefer_normal"],
                           delays=case["delays"], noise=case["noise"])
    simsdo.attach(term, srv, (0x1000, case["out_sz"]),
                  (0x1800, case["in_sz"]))
    bus = simbus.Bus([term])
    results = []

    async def go(loop):
        ec = EtherCat("verif")
        ec.send_queue = asyncio.Queue()
        server = asyncio.ensure_future(simbus.serve_datagrams(ec, bus))
        t = Terminal(ec)
        t.position = 44
        t.name = "T"
        t.mbx_lock = MailboxLock()
        t.mbx_out_off, t.mbx_out_sz = 0x1000, case["out_sz"]
        t.mbx_in_off, t.mbx_in_sz = 0x1800, case["in_sz"]
        for i, op in enumerate(case["ops"]):
            index = 0x2000 + i
            try:
                if op["op"] == "read" and op.get("entry"):
                    r = await asyncio.wait_for(
                        entry_of(t, index, op).read(), 5)
                    results.append(("ok", struct.pack(
                        "<" + ECDataType[op["entry"]["dtype"]].fmt, r)))
                elif op["op"] == "read":
                    r = await asyncio.wait_for(
                        t.sdo_read(index, op["sub"]), 5)
                    results.append(("ok", r))
                elif op.get("entry"):
                    await asyncio.wait_for(entry_of(t, index, op).write(
                        op["entry"]["value"]), 5)
                    results.append(("ok", None))
                else:
                    await asyncio.wait_for(
                        t.sdo_write(op_bytes(op), index, op["sub"]), 5)
                    results.append(("ok", None))
            except asyncio.TimeoutError:
                results.append(("timeout", None))
                break
            except Exception as e:
                results.append(("raised", f"{type(e).__name__}: {e}"))
                # the exchange may have left mail behind: stop here
                break
        server.cancel()

    try:
        simloop.run(go, budget=400000)
    except (simloop.LoopStalled, simloop.BudgetExceeded) as e:
        results.append(("stalled", repr(e)))

    classes = []
    facts = []
    interesting = False
    keyparts = [case["out_sz"], case["in_sz"]]
    for i, op in enumerate(case["ops"]):
        n = op["len"]
        kind = kind_of(op, n, case)
        access = "ca" if op["sub"] is None else "sub"
        classes += [f"{op['op']}:{kind}", f"access={access}"]
        keyparts.append((op["op"], kind, access, n))
        if kind != "expedited" or access == "ca":
            interesting = True

    def fail(i, what):
        op = case["ops"][i]
        kind = kind_of(op, op["len"], case)
        return dict(ok=False, nontrivial=True, classes=classes,
                    facts=[f"{op['op']}:{kind}:"
                           f"{'ca' if op['sub'] is None else 'sub'}"],
                    bucket=(op["op"], kind, op["sub"] is None,
                            what.split(":")[0][:40]),
                    what=(f"mailbox out/in {case['out_sz']}/{case['in_sz']}, "
                          f"op {i}: sdo_{op['op']} of {op['len']} bytes "
                          f"({kind}, subindex {op['sub']}), server "
                          f"prefer_normal={case['prefer_normal']} delays "
                          f"{case['delays']} noise {case['noise']}: {what}"))

    for i, op in enumerate(case["ops"]):
        if i >= len(results):
            break
        status, val = results[i]
        index = 0x2000 + i
        want = op_bytes(op)
        if status != "ok":
            return fail(i, f"{status}: {val}; server log {srv.log[-4:]}, "
                           f"denied accesses {term.denied}")
        if op["op"] == "read":
            if bytes(val) != want:
                return fail(i, f"returned {bytes(val).hex()[:60]} "
                               f"({len(val)} bytes), object is "
                               f"{want.hex()[:60]} ({len(want)} bytes)")
        else:
            sub = 1 if op["sub"] is None else op["sub"]
            got = srv.objects.get((index, sub))
            if got != want:
                return fail(i, f"terminal holds "
                               f"{None if got is None else got.hex()[:60]} "
                               f"({None if got is None else len(got)} bytes)"
                               f", written {want.hex()[:60]} "
                               f"({len(want)} bytes); log {srv.log[-4:]}")
    # a segmented download ends with a segment that carries the "last" bit:
    # a terminal commits the value only then (the model itself is tolerant)
    open_dl = None
    for entry in srv.log:
        if entry[0] == "download":
            if open_dl is not None and open_dl[1] is False:
                break
            open_dl = [entry[1], None]
        elif entry[0] == "segment" and open_dl is not None:
            open_dl[1] = bool(entry[2])
        elif open_dl is not None and open_dl[1] is False:
            break
    if open_dl is not None and open_dl[1] is False \
            and all(r[0] == "ok" for r in results):
        i = open_dl[0] - 0x2000
        if 0 <= i < len(case["ops"]):
            return fail(i, "the last download segment was sent without the "
                           "'last segment' bit: a terminal keeps the "
                           f"download open; log {srv.log[-4:]}")
    if srv.errors:
        return fail(0, f"protocol errors seen by the terminal: "
                       f"{srv.errors[:3]}")
    if term.denied:
        return fail(0, f"{term.denied} mailbox accesses were denied "
                       f"(message larger than the mailbox or out of order)")
    if any(case["delays"]) or any(case["noise"]):
        classes.append("delayed-or-noisy")
    return dict(ok=True, nontrivial=interesting, key=repr(keyparts),
                classes=classes,
                summary={"ops": [(o["op"], o["len"], o["sub"])
                                 for o in case["ops"]],
                         "log": srv.log[:6]})


KNOWN = {}
