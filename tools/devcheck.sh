#!/bin/bash
# tools/devcheck.sh NAME DIFF|- ID [runner args...]: developer tool.  Runs the
# check ID of a scratch copy of /verif against a scratch copy of /repo's
# ebpfcat package with DIFF applied ("-": unchanged), so that several seeded
# changes can be tried in parallel without touching /repo.  Everything lives
# under /tmp/dv/NAME and is removed afterwards.
name=$1; diff=$2; shift 2
d=/tmp/dv/$name
rm -rf $d; mkdir -p $d/repo
cp -r /repo/ebpfcat $d/repo/ebpfcat
[ -d /repo/examples ] && cp -r /repo/examples $d/repo/ 2>/dev/null
if [ "$diff" != "-" ]; then (cd $d/repo && patch -s -p1 < $diff) || { echo "patch failed"; rm -rf $d; exit 2; }; fi
rsync -a --exclude .git --exclude out --exclude scratch --exclude seeded /verif/ $d/verif/
cd $d/verif
export PYTHONDONTWRITEBYTECODE=1 PYTHONHASHSEED=0 EBPFCAT_VERIF=1 VF_DEV_REPO=$d/repo
export PYTHONPATH="$d/repo:$d/verif:$d/verif/.deps"
/venv/bin/python -m vf.runner "$@" 2>&1 | grep -v "^  sample\|^$" | tail -${TAIL:-6}
rc=${PIPESTATUS[0]}
cd /; rm -rf $d
echo "[$name] exit=$rc"
