"""C04 Writing one variable never changes another

domain : programs made of a main XDP program and 0-2 subprogram instances
         (of 1-2 classes) with local variables of all sizes and bit fields,
         array-map, per-CPU and hash-map variables, packet variables and one
         Dict, declared in one class or partly in a base class; 5-25 statements, each writing one variable from a constant, a
         copy, a (temporary-forcing) expression, abs, ktime/prandom, a
         comparison result into a bit field, or a Dict update/lookup; then a
         dump of every variable through the DSL.
oracle : reference store (name -> value) updated only at the written
         variable; values are kept small and non-negative in arithmetic so a
         mismatch means aliasing, not arithmetic.
"""
from hypothesis import strategies as st

from ebpfcat.arraymap import ArrayMap, PerCPUArrayMap
from ebpfcat.ebpf import (
    AssembleError, LocalVar, Member, Structure, SubProgram, ktime, prandom)
from ebpfcat.hashmap import Dict, HashMap
from ebpfcat.xdp import XDP, PacketVar, XDPExitCode

from ..gen import dsl
from ..runner import HarnessError
from ..vm import interp, kernel

ID = "C04"
LEVEL = "exploration"
TECHNIQUE = ("property-based differential testing against a reference store: "
             "generated multi-variable programs run in interpreter and kernel")
RULE = ("Hypothesis draws (variable declarations over main program and "
        "subprogram instances, 5-25 statements, a dump); non-trivial = at "
        "least 2 storage classes are declared and a temporary-forcing "
        "statement (hash-map store, Dict operation, helper call, expression "
        "of depth 2, abs, bit-field store from a comparison) lies between a "
        "write of one variable and the dump of another; distinct by "
        "(declaration kinds/formats/owners, statement kinds); plus an "
        "enumerated family of hash maps with 100-513 variables (written "
        "and read one by one from Python and the program)")
ASSUMPTIONS = [
    "arithmetic operands are kept non-negative and results below 256, so "
    "C01's known arithmetic findings cannot be the cause of a mismatch",
    "the dump reads every variable through the DSL into 8 byte array-map "
    "output variables, after all statements",
    "programs using ktime()/prandom() are run in the interpreter only, with "
    "helper results supplied by the case",
    "per-CPU variables are observed from the program side (the CPU it runs "
    "on), hash-map variables through program reads",
]
EXAMPLES = {"quick": 150, "thorough": 3000}
MIN_NONTRIVIAL = {"quick": 300, "thorough": 4000}

FMTS = "BHIQbhiq"
TEMP_KINDS = {"hstore", "dset", "dget", "dboth", "ktime", "prandom", "deep", "abs",
              "bitcmp"}


@st.composite
def case_strategy(draw):
    nclasses = draw(st.integers(0, 2))
    owners = ["main"]
    classes = []
    subs = []
    if nclasses:
        nsubs = draw(st.integers(1, 2))
        subs = [draw(st.integers(0, nclasses - 1)) for _ in range(nsubs)]
    decls = []   # name, owner ("main" or class index), kind, fmt

    def fmt_for(kind):
        if kind in ("local", "map", "pkt") and draw(st.integers(0, 5)) == 0:
            bits = draw(st.sampled_from([1, 1, 2, 3]))
            return [draw(st.integers(0, 8 - bits)), bits]
        if kind == "hash":
            return draw(st.sampled_from("IQiqBH"))
        return draw(st.sampled_from(FMTS))

    n = 0
    for _ in range(draw(st.integers(2, 6))):
        kind = draw(st.sampled_from(["local", "local", "map", "percpu",
                                     "hash", "pkt"]))
        decls.append({"name": f"m{n}", "owner": "main", "kind": kind,
                      "fmt": fmt_for(kind)})
        n += 1
    for ci in sorted(set(subs)):
        for _ in range(draw(st.integers(1, 3))):
            kind = draw(st.sampled_from(["local", "local", "map"]))
            decls.append({"name": f"c{n}", "owner": ci, "kind": kind,
                          "fmt": fmt_for(kind)})
            n += 1
    use_dict = draw(st.integers(0, 1)) == 0
    dspec = None
    if use_dict:
        dspec = {"key": [draw(st.sampled_from("IH")) for _ in
                         range(draw(st.integers(1, 2)))],
                 "value": [draw(st.sampled_from("IQHB")) for _ in
                           range(draw(st.integers(1, 3)))]}
        for part in dspec.values():         # packed: no holes
            part.sort(key=lambda f: -dsl.SIZES[f])
    # variable instances
    inst = []
    for d in decls:
        if d["owner"] == "main":
            inst.append(["main", d["name"]])
        else:
            for si, ci in enumerate(subs):
                if ci == d["owner"]:
                    inst.append([si, d["name"]])
    stmts = []
    ints = [v for v in inst if isinstance(
        [d for d in decls if d["name"] == v[1]][0]["fmt"], str)]
    bits = [v for v in inst if v not in ints]
    if not ints:
        decls.append({"name": "m99", "owner": "main", "kind": "local",
                      "fmt": "I"})
        inst.append(["main", "m99"])
        ints = [["main", "m99"]]
    hashes = [v for v in inst if [d for d in decls
                                  if d["name"] == v[1]][0]["kind"] == "hash"]
    for _ in range(draw(st.integers(5, 25))):
        k = draw(st.sampled_from(["const", "const", "copy", "copy", "expr",
                                  "deep", "abs", "ktime", "prandom", "bitcmp",
                                  "hstore", "dset", "dget", "bitconst"]
                                 + (["dset", "dget", "dget", "dboth"]
                                    if dspec else [])))
        tgt = draw(st.sampled_from(ints))
        if k == "const":
            stmts.append(["const", tgt, draw(st.integers(-5, 200))])
        elif k == "copy":
            stmts.append(["copy", tgt, draw(st.sampled_from(ints))])
        elif k == "expr":
            stmts.append(["expr", tgt, draw(st.sampled_from(ints)),
                          draw(st.sampled_from(["+", "*", "|", "&"])),
                          draw(st.integers(0, 9))])
        elif k == "deep":
            stmts.append(["deep", tgt, draw(st.sampled_from(ints)),
                          draw(st.sampled_from(ints)),
                          draw(st.sampled_from(ints)),
                          draw(st.integers(1, 3))])
        elif k == "abs":
            stmts.append(["abs", tgt, draw(st.sampled_from(ints))])
        elif k in ("ktime", "prandom"):
            stmts.append([k, tgt, draw(st.integers(0, 200))])
        elif k == "bitcmp" and bits:
            stmts.append(["bitcmp", draw(st.sampled_from(bits)),
                          draw(st.sampled_from(ints)),
                          draw(st.integers(0, 100))])
        elif k == "bitconst" and bits:
            stmts.append(["bitconst", draw(st.sampled_from(bits)),
                          draw(st.integers(0, 7))])
        elif k == "hstore" and hashes:
            stmts.append(["hstore", draw(st.sampled_from(hashes)),
                          draw(st.sampled_from(ints)),
                          draw(st.integers(0, 9))])
        elif k == "dset" and dspec:
            stmts.append(["dset",
                          [draw(st.integers(0, 3)) for _ in dspec["key"]],
                          [draw(st.sampled_from(ints))
                           for _ in dspec["value"]]])
        elif k == "dget" and dspec:
            stmts.append(["dget",
                          [draw(st.integers(0, 3)) for _ in dspec["key"]],
                          tgt, draw(st.integers(0, len(dspec["value"]) - 1)),
                          draw(st.integers(0, 1))])
        elif k == "dboth" and dspec:
            # both Dicts (declared with the same Structure classes) are
            # staged before either is updated
            stmts.append(["dboth",
                          [draw(st.integers(0, 3)) for _ in dspec["key"]],
                          [draw(st.sampled_from(ints))
                           for _ in dspec["value"]],
                          [draw(st.integers(0, 3)) for _ in dspec["key"]],
                          [draw(st.integers(0, 100))
                           for _ in dspec["value"]]])
            # ... and both entries are looked up again
            for tbl, key in ((0, stmts[-1][1]), (1, stmts[-1][3])):
                stmts.append(["dget", list(key), draw(st.sampled_from(ints)),
                              draw(st.integers(0, len(dspec["value"]) - 1)),
                              tbl])
    return {"subs": subs, "decls": decls, "dict": dspec, "stmts": stmts,
            "init": [draw(st.integers(0, 200)) for _ in inst],
            # how many of the main program's first declarations come from a
            # base class; the same for the first one of each subprogram class
            "split": draw(st.sampled_from([0, 0, 1, 2, 3])),
            "split_sub": draw(st.booleans()),
            "prior": draw(st.booleans())}


def strategy(tier):
    return case_strategy()


def enumerate_cases(tier):
    """a hash map with up to 255 variables (and more, if the library takes
    them): the history harness of C09, judged here for clobbering only"""
    from . import c09
    for case in c09.enumerate_cases(tier):
        if case.get("hv_pad"):
            yield {"many_hash_variables": case}


def fsz(fmt):
    return dsl.fsize(fmt)


def reduce_to(fmt, v):
    if isinstance(fmt, (list, tuple)):
        return v & ((1 << fmt[1]) - 1)
    return dsl.decode_value(v, fmt)


def run_case(case):
    if "many_hash_variables" in case:
        from . import c09
        inner = case["many_hash_variables"]
        r = c09.run_case(inner)
        n = len(inner["hv"]) + inner["hv_pad"]
        r = dict(r, facts=[], classes=[f"hash-variables={n}"] + [
            c for c in r.get("classes", []) if c.startswith("rejected")])
        r.pop("bucket", None)
        if r.get("key"):
            r["key"] = repr(("many", n, inner["hv"][0]["fmt"]))
        return r
    decls, subs, dspec = case["decls"], case["subs"], case["dict"]
    dmap = {d["name"]: d for d in decls}
    inst = []
    for d in decls:
        if d["owner"] == "main":
            inst.append(("main", d["name"]))
        else:
            for si, ci in enumerate(subs):
                if ci == d["owner"]:
                    inst.append((si, d["name"]))
    helper = any(s[0] in ("ktime", "prandom") for s in case["stmts"])
    kinds = sorted({s[0] for s in case["stmts"]})
    storage = sorted({("sub-" if d["owner"] != "main" else "") + d["kind"]
                      for d in decls})
    classes = [f"stmt={k}" for k in kinds] + [f"var={s}" for s in storage] \
        + [f"subs={len(subs)}"]
    if dspec:
        classes.append("dict")

    # ---- classes
    amap = ArrayMap()
    pmap = PerCPUArrayMap()
    hmap = HashMap()
    ns = {"license": "GPL", "amap": amap, "minimumPacketSize": 64}
    if any(d["kind"] == "percpu" for d in decls):
        ns["pmap"] = pmap
    if any(d["kind"] == "hash" for d in decls):
        ns["hmap"] = hmap
    subns = {ci: {} for ci in set(subs)}
    pktpos = 16
    for d in decls:
        target = ns if d["owner"] == "main" else subns[d["owner"]]
        f = dsl.pyfmt(d["fmt"])
        if d["kind"] == "local":
            target[d["name"]] = LocalVar(f)
        elif d["kind"] == "map":
            target[d["name"]] = amap.globalVar(f)
        elif d["kind"] == "percpu":
            target[d["name"]] = pmap.globalVar(f)
        elif d["kind"] == "hash":
            target[d["name"]] = hmap.globalVar(f, 0)
        elif d["kind"] == "pkt":
            size = fsz(d["fmt"])
            pktpos = (pktpos + size - 1) // size * size
            target[d["name"]] = PacketVar(pktpos, f)
            pktpos += size
    for i in range(len(inst)):
        ns[f"o{i}"] = amap.globalVar("q")
    def obj(e, owner):
        return e if owner == "main" else e.subprograms[owner]

    def ref(e, v):
        return getattr(obj(e, v[0]), v[1])

    dynfacts = set()

    def put(e, v, value):
        from ebpfcat.ebpf import Memory
        if dmap[v[1]]["kind"] == "hash" and isinstance(value, Memory) \
                and fsz(value.fmt) < 8:
            dynfacts.add("hash-store-from-narrow-variable")
        setattr(obj(e, v[0]), v[1], value)

    store = {}
    dmodel = {}
    dmodel2 = {}
    order = []

    def fmt_of(v):
        return dmap[v[1]]["fmt"]

    def write(v, value):
        store[tuple(v)] = reduce_to(fmt_of(v), value)

    ktimes, randoms = [], []

    def program(e):
        # every variable is initialised first (bit-field locals can only be
        # written by read-modify-write: give their byte a raw initial value)
        from ebpfcat.ebpf import Opcode
        for v in inst:
            d = dmap[v[1]]
            if d["kind"] == "local" and not isinstance(d["fmt"], str):
                o = obj(e, v[0])
                _, addr = next(c.__dict__[v[1]] for c in type(o).__mro__
                               if v[1] in c.__dict__).fmt_addr(o)
                e.append(Opcode.ST + Opcode.B, 10, 0, addr, 0)
        for v, c in zip(inst, case["init"]):
            f = fmt_of(v)
            if dmap[v[1]]["kind"] == "hash":
                with e.tmp:
                    e.tmp = c
                    put(e, v, e.tmp)
            else:
                put(e, v, c if isinstance(f, str) else c & ((1 << f[1]) - 1))
            write(v, c)
        for s in case["stmts"]:
            k = s[0]
            if k == "const":
                c = s[2]
                if dmap[s[1][1]]["kind"] == "hash":
                    c = abs(c)
                    with e.tmp:
                        e.tmp = c
                        put(e, s[1], e.tmp)
                else:
                    put(e, s[1], c)
                write(s[1], c)
            elif k == "copy":
                put(e, s[1], ref(e, s[2]))
                write(s[1], store[tuple(s[2])])
            elif k == "expr":
                a = store[tuple(s[2])]
                if a < 0 or a > 25:
                    put(e, s[1], ref(e, s[2]))
                    write(s[1], a)
                    continue
                x = ref(e, s[2])
                val = {"+": x + s[4], "*": x * s[4], "|": x | s[4],
                       "&": x & s[4]}[s[3]]
                put(e, s[1], val)
                write(s[1], {"+": a + s[4], "*": a * s[4], "|": a | s[4],
                             "&": a & s[4]}[s[3]])
            elif k == "deep":
                a, b, c = (store[tuple(s[i])] for i in (2, 3, 4))
                if min(a, b, c) < 0 or max(a, b, c) > 8:
                    put(e, s[1], ref(e, s[2]))
                    write(s[1], a)
                    continue
                put(e, s[1], (ref(e, s[2]) + ref(e, s[3]))
                    * (ref(e, s[4]) + s[5]))
                write(s[1], (a + b) * (c + s[5]))
            elif k == "abs":
                a = store[tuple(s[2])]
                if a < 0 or a >= 1 << 31:
                    # arithmetic on large / negative values is C01's subject
                    put(e, s[1], ref(e, s[2]))
                    write(s[1], a)
                    continue
                put(e, s[1], abs(ref(e, s[2])))
                write(s[1], a)
            elif k == "ktime":
                put(e, s[1], ktime(e) & 0xff)
                ktimes.append(s[2] | 0x1234567800)
                write(s[1], s[2] & 0xff)
            elif k == "prandom":
                put(e, s[1], prandom(e) & 0x7f)
                randoms.append(s[2] | 0x12345600)
                write(s[1], s[2] & 0x7f)
            elif k == "bitcmp":
                a = store[tuple(s[2])]
                f = fmt_of(s[1])
                if f[1] == 1 and a >= 0:
                    put(e, s[1], ref(e, s[2]) > s[3])
                    write(s[1], int(a > s[3]))
                else:
                    put(e, s[1], s[3] & 1)
                    write(s[1], s[3] & 1)
            elif k == "bitconst":
                f = fmt_of(s[1])
                put(e, s[1], s[2] & ((1 << f[1]) - 1))
                write(s[1], s[2])
            elif k == "hstore":
                a = store[tuple(s[2])]
                if a < 0 or a > 25:
                    put(e, s[1], ref(e, s[2]))
                    write(s[1], a)
                    continue
                put(e, s[1], ref(e, s[2]) + s[3])
                write(s[1], a + s[3])
            elif k == "dset":
                for i, c in enumerate(s[1]):
                    setattr(e.table.key, f"k{i}", c)
                vals = []
                for i, v in enumerate(s[2]):
                    a = store[tuple(v)]
                    setattr(e.table.value, f"v{i}", ref(e, v))
                    vals.append(dsl.decode_value(a, dspec["value"][i]))
                e.table.update()
                dmodel[tuple(s[1])] = vals
            elif k == "dboth":
                for i, c in enumerate(s[1]):
                    setattr(e.table.key, f"k{i}", c)
                vals = []
                for i, v in enumerate(s[2]):
                    a = store[tuple(v)]
                    setattr(e.table.value, f"v{i}", ref(e, v))
                    vals.append(dsl.decode_value(a, dspec["value"][i]))
                for i, c in enumerate(s[3]):
                    setattr(e.table2.key, f"k{i}", c)
                for i, c in enumerate(s[4]):
                    setattr(e.table2.value, f"v{i}", c)
                e.table2.update()
                e.table.update()
                dmodel[tuple(s[1])] = vals
                dmodel2[tuple(s[3])] = list(s[4])
            elif k == "dget":
                second = len(s) > 4 and s[4] == 1
                tbl, model = (e.table2, dmodel2) if second \
                    else (e.table, dmodel)
                for i, c in enumerate(s[1]):
                    setattr(tbl.key, f"k{i}", c)
                with tbl.lookup() as (value, Else):
                    put(e, s[2], getattr(value, f"v{s[3]}"))
                with Else:
                    put(e, s[2], 77)
                if tuple(s[1]) in model:
                    write(s[2], model[tuple(s[1])][s[3]])
                else:
                    write(s[2], 77)
        # ---- dump through the DSL
        for i, v in enumerate(inst):
            setattr(e, f"o{i}", ref(e, v))
        e.exit(XDPExitCode.TX)

    ns["program"] = program

    with kernel.tracking() as tracker:
        try:
            if dspec:
                Key = type("Key", (Structure,),
                           {f"k{i}": Member(f)
                            for i, f in enumerate(dspec["key"])})
                Value = type("Value", (Structure,),
                             {f"v{i}": Member(f)
                              for i, f in enumerate(dspec["value"])})
                ns["table"] = Dict(Key, Value, size=8)
                ns["table2"] = Dict(Key, Value, size=8)
            # the first declarations may sit in a base class, the rest in
            # the class derived from it
            def derive(name, root, members, names, k):
                inherited = {n: members.pop(n) for n in names[:k]
                             if n in members}
                if not inherited:
                    return type(name, (root,), members)
                classes.append("inherited-declarations")
                return type(name, (type(name + "Base", (root,), inherited),),
                            members)
            cls = derive("P", XDP, ns,
                         [d["name"] for d in decls if d["owner"] == "main"],
                         case.get("split", 0))
            subobjs = []
            subcls = {ci: derive(f"S{ci}", SubProgram, dict(subns[ci]),
                                 [d["name"] for d in decls
                                  if d["owner"] == ci],
                                 1 if case.get("split_sub") else 0)
                      for ci in subns}
            if case.get("prior") and subs:
                # the subprogram classes were used before, in another main
                # program with a small stack frame
                def small_program(p):
                    for sub in p.subprograms:
                        for d in decls:
                            if d["owner"] in subns and d["kind"] == "local" \
                                    and isinstance(d["fmt"], str) \
                                    and d["name"] in type(sub).__dict__ \
                                    | {k: 1 for c in type(sub).__mro__
                                       for k in c.__dict__}:
                                setattr(sub, d["name"], 1)
                    p.exit(XDPExitCode.TX)
                Small = type("Small", (XDP,), {
                    "license": "GPL", "minimumPacketSize": 64,
                    "tiny": LocalVar("B"), "program": small_program})
                Small(subprograms=[subcls[ci]() for ci in subs]).assemble()
                classes.append("subprograms-used-before")
            for ci in subs:
                subobjs.append(subcls[ci]())
            e = cls(subprograms=subobjs)
            loaded = dsl.Loaded(e)
        except AssembleError:
            return dict(ok=True, nontrivial=False,
                        classes=classes + ["rejected:AssembleError"])
        except HarnessError:
            raise
        except Exception as err:
            return dict(ok=True, nontrivial=False, classes=classes + [
                f"build-error:{type(err).__name__}"],
                summary=str(err)[:100])
        if loaded.status == "rejected":
            return dict(ok=True, nontrivial=False,
                        classes=classes + ["rejected:AssembleError"])
        if loaded.status == "verifier":
            classes.append("verifier-rejected")
        msize = cls.__dict__["amap"].size
        fd = dsl.array_fd(tracker, msize)
        pkt = bytearray(96)
        obs = dsl.run_both(loaded, tracker, pkt,
                           arrays={fd: (e.amap, bytes(msize))},
                           ktimes=ktimes or None, randoms=randoms or None,
                           differential=not helper)
        sublocals = [d for d in decls if d["owner"] != "main"
                     and d["kind"] == "local"]
        facts = []
        if sublocals:
            facts.append("subprogram-locals")
        facts += sorted(dynfacts)
        tainted = sublocal_influence(case, inst, dmap)
        if obs.fault:
            return dict(ok=False, nontrivial=True, classes=classes,
                        facts=facts, bucket=("fault", facts),
                        what=f"generated code faults: {obs.fault}; "
                             f"{render(case)}")
        if obs.retval != 3:
            return dict(ok=False, nontrivial=True, classes=classes,
                        facts=facts,
                        what=f"program returned {obs.retval}, not TX: a map "
                             f"lookup failed? {render(case)}")
        out = obs.maps[fd]
        wrong = []
        for i, v in enumerate(inst):
            pos = e.__dict__[f"o{i}"]
            got = int.from_bytes(out[pos:pos + 8], "little", signed=True)
            want = store[tuple(v)]
            f = fmt_of(v)
            if isinstance(f, str) and f.isupper() and want < 0:
                want += 1 << 64
            if isinstance(f, str) and f.isupper() and got < 0:
                got += 1 << 64
            if got != want:
                wrong.append((v, got, want))
        if wrong:
            if any(tuple(w[0]) not in tainted for w in wrong):
                # a variable that no subprogram local ever flowed into:
                # not the known aliasing of subprogram locals
                facts = [f for f in facts if f != "subprogram-locals"]
            return dict(ok=False, nontrivial=True, classes=classes,
                        facts=facts,
                        bucket=(facts, sorted({dmap[w[0][1]]["kind"] + (
                            "" if w[0][0] == "main" else "@sub")
                            for w in wrong})),
                        what=f"after {render(case)}: "
                        + "; ".join(f"{v[0]}.{v[1]} "
                                    f"({dmap[v[1]]['kind']}:{dmap[v[1]]['fmt']})"
                                    f" reads {g}, expected {w}"
                                    for v, g, w in wrong[:4]))
        temp = any(s[0] in TEMP_KINDS for s in case["stmts"])
        key = repr((sorted((d["kind"], str(d["fmt"]), str(d["owner"]))
                           for d in decls), subs, kinds))
        return dict(ok=True, nontrivial=len(storage) >= 2 and temp, key=key,
                    classes=classes,
                    summary={"program": render(case)[:600]})


def sublocal_influence(case, inst, dmap):
    """the variables a subprogram local may have flowed into (the known
    finding C04-subprogram-locals makes subprogram locals alias each other
    and stack temporaries: their values, and what is computed from them, are
    unreliable - nothing else is)"""
    tainted = {tuple(v) for v in inst
               if v[0] != "main" and dmap[v[1]]["kind"] == "local"}
    fixed = set(tainted)
    entries = {}

    def flow(tgt, sources):
        tgt = tuple(tgt)
        if tgt in fixed:
            return
        if any(tuple(x) in tainted for x in sources):
            tainted.add(tgt)
        else:
            tainted.discard(tgt)
    for s in case["stmts"]:
        k = s[0]
        if k in ("const", "ktime", "prandom", "bitconst"):
            flow(s[1], [])
        elif k in ("copy", "expr", "abs", "bitcmp", "hstore"):
            flow(s[1], [s[2]])
        elif k == "deep":
            flow(s[1], [s[2], s[3], s[4]])
        elif k == "dset":
            entries[0, tuple(s[1])] = any(tuple(v) in tainted for v in s[2])
        elif k == "dboth":
            entries[0, tuple(s[1])] = any(tuple(v) in tainted for v in s[2])
            entries[1, tuple(s[3])] = False
        elif k == "dget":
            tbl = s[4] if len(s) > 4 else 0
            if entries.get((tbl, tuple(s[1]))):
                tainted.add(tuple(s[2]))
            elif tuple(s[2]) not in fixed:
                tainted.discard(tuple(s[2]))
    return tainted


def render(case):
    d = ", ".join(f"{x['owner']}.{x['name']}:{x['kind']}:{x['fmt']}"
                  for x in case["decls"])
    s = "; ".join(
        f"{st_[0]} " + " ".join(
            (f"{a[0]}.{a[1]}" if isinstance(a, list) and len(a) == 2
             and isinstance(a[1], str) else str(a)) for a in st_[1:])
        for st_ in case["stmts"])
    return f"subs={case['subs']} [{d}] {s}"


KNOWN = {
    # subprogram locals are addressed relative to the main program's current
    # stack top: instances share slots, and temporaries overwrite them
    "C04-subprogram-locals":
        lambda case, res: "subprogram-locals" in res.get("facts", ()),
    # `hashvar = narrow_variable` passes the variable's address to
    # map_update_elem, which copies 8 bytes: neighbouring bytes leak in
    "C04-hash-store-from-narrow-variable":
        lambda case, res: "hash-store-from-narrow-variable"
        in res.get("facts", ()),
}
