"""C05 Every program the generator accepts loads into the kernel

domain : the programs of the C01-C04, C07 (and, once built, C09 / library)
         generators - every local initialised first, packet accesses under a
         guard, stack <= 512 - plus dedicated small families: exit() inside a
         branch that has an Else, in-place updates of packet variables,
         ktime/prandom in expressions.
oracle : the kernel verifier: EBPF.load() must return a file descriptor for
         every program that assembled without AssembleError.
"""
import re

from hypothesis import strategies as st

from ebpfcat.ebpf import AssembleError

from ..gen import dsl
from ..runner import HarnessError
from ..vm import kernel
from . import c01, c02, c03, c04, c07

ID = "C05"
LEVEL = "exploration"
TECHNIQUE = ("property-based testing with the kernel verifier as oracle: "
             "programs from all DSL generators are loaded with EBPF.load()")
RULE = ("cases are drawn from the union of the C01/C02/C03/C04/C07 program "
        "generators and the library-program family; each assembled program is "
        "loaded with BPF_PROG_LOAD; non-trivial = the program assembled and "
        "contains at least one memory access or helper call; distinct by "
        "(generator, that generator's structural key)")
ASSUMPTIONS = [
    "needs bpf(2) with the right to load XDP programs; without it the check "
    "exits 2 (cannot decide)",
    "rejections whose verifier message is 'invalid shift' or 'division by "
    "zero' on a *constant* operand are outside the domain (the user wrote an "
    "undefined operation) and are counted, not judged",
    "AssembleError and other exceptions while building are rejections by the "
    "generator, not violations",
]
EXAMPLES = {"quick": 200, "thorough": 3000}
MIN_NONTRIVIAL = {"quick": 400, "thorough": 5000}

GENS = {"c01": c01, "c02": c02, "c03": c03, "c04": c04, "c07": c07}


def strategy(tier):
    return st.one_of(
        *[mod.strategy(tier).map(lambda c, n=name: {"gen": n, "case": c})
          for name, mod in GENS.items()],
        library_cases(),
        misc_cases(),
    )


def misc_cases():
    """small families the other generators do not produce"""
    return st.fixed_dictionaries({
        "form": st.sampled_from(["exit-then-else", "exit-in-else",
                                 "helper-expr", "exit-no-else",
                                 "helper-in-lookup", "helper-in-lookup",
                                 "regs-across-update", "regs-across-update"]),
        "fmt": st.sampled_from("BHIQbhiq"),
        "c": st.integers(0, 100),
        "code": st.sampled_from([1, 2, 3]),
        "helper": st.sampled_from(["ktime", "prandom"]),
        # registers holding values across a map update (hash-map variable
        # assignment or Dict.update()), read again afterwards
        "live": st.lists(st.sampled_from([0, 2, 3, 4, 5, 8]), min_size=1,
                         max_size=3, unique=True),
    }).map(lambda c: {"gen": "misc", "case": c})


def enumerate_cases(tier):
    # every usable register live across a hash-variable assignment or a
    # Dict update, and computed with afterwards
    for code in (1, 2, 3):
        for live in ([3], [0], [2], [4], [5], [8], [3, 5], [0, 3, 4]):
            for fmt in "BIQq":
                for use in ("add", "mul", "shift", "and"):
                    yield {"gen": "misc", "case": {
                        "form": "regs-across-update", "fmt": fmt, "c": 26,
                        "code": code, "helper": "ktime", "live": live,
                        "use": use}}
    for code in (1, 2, 3):
        for fmt in "BIQq":
            for c in (0, 3, 77):
                yield {"gen": "misc", "case": {
                    "form": "dict-then-guard", "fmt": fmt, "c": c,
                    "code": code, "helper": "ktime", "live": [5]}}


def run_misc(case):
    from ebpfcat.arraymap import ArrayMap
    from ebpfcat.ebpf import ktime, prandom
    from ebpfcat.xdp import XDP, XDPExitCode
    amap = ArrayMap()

    def program(e):
        f = case["form"]
        if f == "exit-then-else":
            with e.va < case["c"] as Else:
                e.vb = 1
                e.exit(XDPExitCode(case["code"]))
            with Else:
                e.vb = 2
        elif f == "exit-in-else":
            with e.va < case["c"] as Else:
                e.vb = 1
            with Else:
                e.vb = 2
                e.exit(XDPExitCode(case["code"]))
        elif f == "exit-no-else":
            with e.va < case["c"]:
                e.vb = 1
                e.exit(XDPExitCode(case["code"]))
            e.vb = 3
        elif f == "regs-across-update":
            live = case.get("live") or [5]
            for k, no in enumerate(live):
                e.r[no] = e.va + k
            if case["code"] == 1:
                e.hv = e.r[live[0]] + 1
            elif case["code"] == 2:
                e.hv = e.va
            else:
                e.table.key.k = e.va
                e.table.value.v = case["c"]
                e.table.value.w = 0
                e.table.update()
            use = case.get("use", "add")
            for no in live:
                if use == "mul":
                    e.r[no] = e.r[no] * 3
                elif use == "shift":
                    e.r[no] = e.r[no] >> 2
                elif use == "and":
                    e.r[no] = e.r[no] & 0xff0
                e.vb = e.vb + e.r[no]
        elif f == "dict-then-guard":
            # a map operation is the first thing the program does (no
            # register is in use yet), the packet is looked at afterwards
            if case["code"] == 1:
                e.table.key.k = 5
                e.table.value.v = case["c"]
                e.table.value.w = 0
                e.table.update()
            elif case["code"] == 2:
                e.table.key.k = 5
                with e.table.lookup() as (value, Else):
                    value.v = case["c"]
            else:
                e.hv = case["c"]
            with e.packetSize > 20 + case["c"] % 8 as p:
                e.vb = p.pB[14 + case["c"] % 6]
            e.va = e.vb + 1
            e.exit(XDPExitCode.PASS)
        elif f == "helper-in-lookup":
            # a helper call while the looked-up value pointer is live
            e.table.key.k = e.va
            with e.table.lookup() as (value, Else):
                h = ktime(e) if case["helper"] == "ktime" else prandom(e)
                if case["code"] == 1:
                    value.v = h & 0xffff
                elif case["code"] == 2:
                    value.w = value.v + (h & 0xff)
                else:
                    e.vb = h & 0xff
                    value.v = e.vb
            with Else:
                e.table.value.v = case["c"]
                e.table.value.w = 0
                e.table.update()
        else:
            h = ktime(e) if case["helper"] == "ktime" else prandom(e)
            e.vb = h + e.va
            e.va = e.vb * 3 + h

    from ebpfcat.ebpf import Member, Structure
    from ebpfcat.hashmap import Dict
    Key = type("Key", (Structure,), {"k": Member("I")})
    Value = type("Value", (Structure,), {"v": Member("Q"), "w": Member("I")})
    ns = {"license": "GPL", "minimumPacketSize": 20,
          "amap": amap, "va": amap.globalVar(case["fmt"]),
          "vb": amap.globalVar("Q"), "program": program}
    if case["form"] == "dict-then-guard":
        ns["minimumPacketSize"] = None
    if case["form"] in ("helper-in-lookup", "regs-across-update",
                        "dict-then-guard"):
        ns["table"] = Dict(Key, Value, size=4)
    if case["form"] in ("regs-across-update", "dict-then-guard"):
        from ebpfcat.hashmap import HashMap
        ns["hmap"] = HashMap()
        ns["hv"] = ns["hmap"].globalVar("Q")
    cls = type("M", (XDP,), ns)
    with kernel.tracking():
        try:
            dsl.Loaded(cls())
        except HarnessError:
            raise
        except Exception:
            return {"key": None}    # the DSL refused to build it
    return {"key": repr((case["form"], case["fmt"], case["helper"],
                         case["code"] if case["form"] in (
                             "regs-across-update", "dict-then-guard")
                         else None,
                         tuple(case.get("live") or ())
                         if case["form"] == "regs-across-update" else None,
                         case.get("use")))}


def library_cases():
    from ..sim import groups
    return groups.fast_group_strategy().map(
        lambda c: {"gen": "lib", "case": c})


def selftest():
    if not kernel.available():
        raise HarnessError("bpf(2) is not usable: C05 cannot be decided")


def classify(log):
    """root-cause label of a verifier rejection from its log tail"""
    tail = " | ".join(log.strip().splitlines()[-4:])
    for pat, label in [
            (r"invalid shift", "excluded:constant-shift-out-of-range"),
            (r"division by zero|div by zero",
             "excluded:constant-division-by-zero"),
            (r"BPF_ATOMIC stores into R\d+ pkt", "atomic-on-packet"),
            (r"unreachable insn", "unreachable-insn"),
            (r"jump into the middle of ldimm64|invalid bpf_ld_imm64 insn|"
             r"jump out of range", "broken-jump"),
            (r"invalid (indirect )?(read|access) (from|to) stack|"
             r"invalid (indirect )?access to stack|invalid read from stack",
             "stack-out-of-bounds"),
            (r"invalid access to map value", "map-value-out-of-bounds"),
            (r"!read_ok", "uninitialised-register"),
            (r"BPF_END uses reserved", "bad-endian"),
            (r"misaligned", "misaligned"),
            (r"invalid mem access 'scalar'", "scalar-dereference"),
    ]:
        if re.search(pat, tail):
            return label, tail
    return "other", tail


def run_case(case):
    gen = case["gen"]
    seen = []
    dsl.LOAD_OBSERVER = seen.append
    inner = None
    try:
        if gen == "lib":
            from ..sim import groups
            inner = groups.load_fast_group(case["case"])
        elif gen == "misc":
            inner = run_misc(case["case"])
        else:
            inner = GENS[gen].run_case(case["case"])
    finally:
        dsl.LOAD_OBSERVER = None
    classes = [f"gen={gen}"]
    if not seen:
        return dict(ok=True, nontrivial=False,
                    classes=classes + ["nothing-assembled"])
    obj = seen[0]
    classes.append(f"status={obj.status}")
    if obj.status == "rejected":
        return dict(ok=True, nontrivial=False, classes=classes)
    key = gen + ":" + str(inner.get("key") if inner else None)
    if obj.status == "ok":
        code = obj.code or b""
        has_access = any(code[i] & 7 in (1, 2, 3) or code[i] == 0x85
                         for i in range(0, len(code), 8))
        return dict(ok=True, nontrivial=has_access, key=key, classes=classes,
                    summary={"gen": gen, "insns": len(code) // 8})
    # verifier refused a program the generator assembled
    label, tail = classify(obj.vlog or "(no log)")
    classes.append("verifier:" + label)
    if label.startswith("excluded:"):
        return dict(ok=True, nontrivial=False, classes=classes)
    facts = [label] + list((inner or {}).get("facts", []) or [])
    if gen == "c03":
        facts += sorted(c03.static_facts(case["case"]["prog"], set()))
    if gen == "c04" and any(d["owner"] != "main" and d["kind"] == "local"
                            for d in case["case"]["decls"]):
        facts.append("subprogram-locals")
    what = (inner or {}).get("summary")
    return dict(ok=False, nontrivial=True, classes=classes, key=key,
                facts=facts, bucket=(label, gen),
                what=f"{gen} program assembled but the verifier refuses it "
                     f"[{label}]: {tail[-400:]} ;; program: "
                     f"{describe(gen, case['case'])[:500]}")


def describe(gen, case):
    try:
        if gen in ("c01",):
            return c01.render(case)
        if gen == "c03":
            return c03.render(case)
        if gen == "c04":
            return c04.render(case)
        if gen == "c02":
            return f"{case['mode']} {c02.render(case['expr'])}"
    except Exception:
        pass
    return str(case)[:400]


def _narrow_hash_store(case, res):
    if case["gen"] != "c04":
        return False
    facts = res.get("facts", ())
    return ("stack-out-of-bounds" in facts
            or "map-value-out-of-bounds" in facts) and any(
        d["kind"] == "hash" for d in case["case"]["decls"])


KNOWN = {
    # `pkt_var += n` on a native 4/8 byte packet variable is lowered to an
    # atomic add, which the verifier does not allow on packet memory
    "C05-atomic-on-packet":
        lambda case, res: "atomic-on-packet" in res.get("facts", ()),
    # same root cause as C04-hash-store-from-narrow-variable: 8 bytes are
    # read from the address of a narrower variable
    "C05-hash-store-from-narrow-variable": _narrow_hash_store,
    # a with-block that ends in exit() and has an Else leaves the jump over
    # the Else block unreachable
    # same root cause as C03-bit-test-elif-else: the instruction splicing of
    # `with bit-test as Else` chains leaves a jump target inside dead code
    "C05-bit-test-elif-else":
        # (the mis-spliced jumps land anywhere: unreachable code, the middle
        # of a 16 byte instruction, behind the load of a register - whatever
        # the verifier complains about first)
        lambda case, res: case["gen"] == "c03"
        and "bit-test-elif-else" in res.get("facts", ()),
    "C05-exit-then-else":
        lambda case, res: "unreachable-insn" in res.get("facts", ())
        and case["gen"] == "misc"
        and case["case"]["form"] == "exit-then-else",
}
