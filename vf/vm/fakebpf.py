"""A user-space stand-in for bpf(2) and mmap, so that maps, HashMap, Dict,
PerCPUArrayMap and whole programs can be built, "loaded" and run in the
independent interpreter without the kernel - and the C10 buffer monitor.

Patches (for the duration of a `with fake():` block) the module-level names
  ebpfcat.bpf.bpf, ebpfcat.bpf.addrof, ebpfcat.bpf.addressof,
  ebpfcat.arraymap.mmap, ebpfcat.arraymap.cpu_count (= CPUs online),
  ebpfcat.arraymap.open (so that /sys/devices/system/cpu/possible reads as
  0-(ncpu-1): ncpu is the number of possible CPUs),
  ebpfcat.ebpf.os (close() of a fake descriptor closes nothing)
Every pointer handed to the fake syscall is traced back to the Python buffer
it came from; a buffer shorter than what the kernel would read or write is
recorded in .overruns (and the copy is clipped, so the harness survives).
"""
import ctypes
import io
import os
import struct
from contextlib import contextmanager

import ebpfcat.arraymap as eb_arraymap
import ebpfcat.bpf as eb_bpf
import ebpfcat.ebpf as eb_ebpf

from . import interp


class Fake:
    def __init__(self, ncpu=4):
        self.ncpu = ncpu
        self.maps = {}        # fd -> model
        self.types = {}       # fd -> map type number
        self.progs = {}       # fd -> code bytes
        self.pins = {}
        self.next_fd = 1000
        self.ptrs = {}        # address -> length of the Python buffer
        self.overruns = []
        self.calls = []       # (cmd, fd, detail) for evidence
        self.unknown_ptrs = []
        self.closed = []      # fake fds handed to os.close

    # ------------------------------------------------------------ pointers
    def remember(self, addr, length):
        self.ptrs[addr] = length

    def buflen(self, addr, what):
        if addr == 0:
            return 0
        n = self.ptrs.get(addr)
        if n is None:
            self.unknown_ptrs.append((what, addr))
            return None
        return n

    def read(self, addr, n, what):
        have = self.buflen(addr, what)
        if have is not None and have < n:
            self.overruns.append((what, "read", n, have))
            data = ctypes.string_at(addr, have)
            return data + bytes(n - have)
        return ctypes.string_at(addr, n)

    def write(self, addr, data, what):
        have = self.buflen(addr, what)
        n = len(data)
        if have is not None and have < n:
            self.overruns.append((what, "write", n, have))
            n = have
        if have is None:
            return      # never write through an unknown pointer
        ctypes.memmove(addr, bytes(data[:n]), n)

    # ------------------------------------------------------------- syscall
    def bpf(self, cmd, fmt, *args):
        attr = struct.pack(fmt, *args)
        ret = self.dispatch(cmd, fmt, list(args))
        return ret, tuple(args)

    def new_fd(self):
        self.next_fd += 1
        return self.next_fd

    def value_len(self, fd):
        m = self.maps[fd]
        if self.types[fd] in (5, 6, 10):        # the per-CPU map types
            return (m.value_size + 7) // 8 * 8 * self.ncpu
        return m.value_size

    def dispatch(self, cmd, fmt, a):
        if cmd == 0:
            mtype, ks, vs, mx, flags = a[:5]
            fd = self.new_fd()
            if mtype == 2:
                m = interp.ArrayModel(fd, ks, vs, mx)
            elif mtype == 6:
                m = interp.ArrayModel(fd, ks, vs, mx, ncpu=self.ncpu)
            elif mtype in (1, 9, 5, 10):
                # 5 / 10: per-CPU (LRU) hash - user space transfers one value
                # per possible CPU
                m = interp.HashModel(fd, ks, vs, mx, lru=mtype in (9, 10))
            elif mtype == 3:
                m = interp.ProgArrayModel(fd, ks, vs, mx)
            else:
                raise OSError(22, "unsupported map type")
            self.maps[fd] = m
            self.types[fd] = mtype
            self.calls.append(("create", fd, (mtype, ks, vs, mx)))
            return fd
        if cmd in (1, 21):
            fd, kptr, vptr, flags = a
            m = self.maps[fd]
            key = self.read(kptr, m.key_size, f"lookup key fd={fd}")
            self.calls.append(("lookup", fd, m.key_size,
                               self.value_len(fd)))
            val = self._get(m, key)
            if val is None:
                raise OSError(2, "No such file or directory")
            val = bytes(val).ljust(self.value_len(fd), b"\0")
            self.write(vptr, val, f"lookup value fd={fd}")
            if cmd == 21:
                self._delete(m, key)
            return 0
        if cmd == 2:
            fd, kptr, vptr, flags = a
            m = self.maps[fd]
            key = self.read(kptr, m.key_size, f"update key fd={fd}")
            val = self.read(vptr, self.value_len(fd),
                            f"update value fd={fd}")
            self.calls.append(("update", fd, m.key_size, self.value_len(fd)))
            return self._set(m, key, val, flags)
        if cmd == 3:
            fd, kptr = a
            m = self.maps[fd]
            key = self.read(kptr, m.key_size, f"delete key fd={fd}")
            self.calls.append(("delete", fd, m.key_size, 0))
            if not self._delete(m, key):
                raise OSError(2, "No such file or directory")
            return 0
        if cmd == 4:
            fd, kptr, nptr = a
            m = self.maps[fd]
            self.calls.append(("next_key", fd, m.key_size, 0))
            keys = list(m.entries) if m.kind == "hash" else [
                struct.pack("<I", i) for i in range(m.max_entries)]
            if kptr == 0:
                idx = 0
            else:
                key = self.read(kptr, m.key_size, f"next_key key fd={fd}")
                idx = keys.index(key) + 1 if key in keys else 0
            if idx >= len(keys):
                raise OSError(2, "No such file or directory")
            self.write(nptr, keys[idx], f"next_key out fd={fd}")
            return 0
        if cmd == 5:
            (ptype, ninsn, iptr, lptr, loglevel, logsize, logbuf, kv,
             flags, name, ifi, at) = a
            code = ctypes.string_at(iptr, ninsn * 8)
            fd = self.new_fd()
            self.progs[fd] = code
            return fd
        if cmd == 6:
            pptr, fd = a
            self.pins[ctypes.string_at(pptr)] = fd
            return 0
        if cmd == 7:
            pptr, = a
            name = ctypes.string_at(pptr)
            if name not in self.pins:
                raise OSError(2, "No such file or directory")
            return self.pins[name]
        raise OSError(22, f"fake bpf: command {cmd} not supported")

    # ---------------------------------------------------------------- maps
    def _get(self, m, key):
        if m.kind == "array":
            idx = struct.unpack("<I", key[:4])[0]
            if idx >= m.max_entries:
                return None
            if m.ncpu is None:
                return bytes(m.values[0][idx][:m.value_size])
            return b"".join(bytes(m.values[c][idx]) for c in range(m.ncpu))
        if m.kind == "hash":
            e = m.entries.get(key)
            return None if e is None else bytes(e)
        if m.kind == "prog_array":
            # user space reads the id of the program in the slot; an empty
            # slot is ENOENT
            idx = struct.unpack("<I", key[:4])[0]
            if idx not in m.progs:
                return None
            return struct.pack("<I", m.progs[idx])
        return None

    def _set(self, m, key, val, flags):
        if m.kind == "array":
            idx = struct.unpack("<I", key[:4])[0]
            if idx >= m.max_entries:
                raise OSError(7, "Argument list too long")
            if m.ncpu is None:
                m.values[0][idx][:m.value_size] = val[:m.value_size]
            else:
                st = m.stride
                for c in range(m.ncpu):
                    m.values[c][idx][:] = val[c * st:(c + 1) * st]
            return 0
        if m.kind == "hash":
            if key in m.entries:
                if flags & 1:
                    raise OSError(17, "File exists")
                m.entries[key][:] = val
                return 0
            if flags & 2:
                raise OSError(2, "No such file or directory")
            if len(m.entries) >= m.max_entries:
                if not m.lru:
                    raise OSError(7, "Argument list too long")
                victim = m.order.pop(0)
                del m.entries[victim]
            m.entries[key] = bytearray(val)
            m.order.append(key)
            return 0
        if m.kind == "prog_array":
            idx = struct.unpack("<I", key[:4])[0]
            m.progs[idx] = struct.unpack("<I", val[:4])[0]
            return 0
        raise OSError(22, "bad map")

    def _delete(self, m, key):
        if m.kind == "hash":
            if key not in m.entries:
                return False
            del m.entries[key]
            if key in m.order:
                m.order.remove(key)
            return True
        if m.kind == "prog_array":
            idx = struct.unpack("<I", key[:4])[0]
            return m.progs.pop(idx, None) is not None
        return False

    # ------------------------------------------------------------ programs
    def run(self, prog_fd, packet, cpu=0, ktimes=None, randoms=None):
        m = interp.Machine(self.progs[prog_fd], maps=self.maps,
                           packet=packet, cpu=cpu, ktimes=ktimes,
                           randoms=randoms, programs=self.progs)
        ret = m.run()
        return ret, bytes(m.packet), m


def possible_mask(n, form):
    """the text of /sys/devices/system/cpu/possible for n possible CPUs in
    one of the notations the kernel's cpulist format allows"""
    if n == 1 or form == 0:
        return f"0-{n - 1}\n" if n > 1 else "0\n"
    if form == 1:                   # two adjacent ranges
        a = max(0, n // 3 - 1)
        left = f"0-{a}" if a else "0"
        right = f"{a + 1}-{n - 1}" if a + 1 < n - 1 else f"{n - 1}"
        return f"{left},{right}\n"
    if form == 2:                   # single numbers
        return ",".join(str(i) for i in range(n)) + "\n"
    # a hole in the numbering: n CPUs, numbered up to n
    a = max(0, n // 2 - 1)
    left = f"0-{a}" if a else "0"
    right = f"{a + 2}-{n}" if a + 2 < n else f"{n}"
    return f"{left},{right}\n"


@contextmanager
def fake(ncpu=4):
    f = Fake(ncpu)
    saved = (eb_bpf.bpf, eb_bpf.addrof, eb_bpf.addressof, eb_arraymap.mmap,
             eb_arraymap.cpu_count)
    real_addressof = ctypes.addressof

    def addrof(ptr):
        if isinstance(ptr, bytearray):
            addr = real_addressof(ctypes.c_char.from_buffer(ptr))
            f.remember(addr, len(ptr))
            # keep the buffer pinned while its address is in use
            f.ptrs[("keep", addr)] = ptr
            return addr
        addr = ctypes.cast(ptr, ctypes.c_void_p).value
        if isinstance(ptr, (bytes, memoryview)):
            f.remember(addr, len(ptr))
        else:
            try:
                f.remember(addr, ctypes.sizeof(ptr))
            except TypeError:
                pass
        f.ptrs[("keep", addr)] = ptr
        return addr

    def addressof(obj):
        addr = real_addressof(obj)
        mv = getattr(obj, "_objects", None)
        if isinstance(mv, memoryview):
            f.remember(addr, mv.nbytes)
        else:
            try:
                f.remember(addr, ctypes.sizeof(obj))
            except TypeError:
                pass
        f.ptrs[("keep", addr)] = obj
        return addr

    def mmap(fd, size):
        m = f.maps[fd]
        return m.values[0][0]

    eb_bpf.bpf = f.bpf
    eb_bpf.addrof = addrof
    eb_bpf.addressof = addressof
    eb_arraymap.mmap = mmap
    eb_arraymap.cpu_count = lambda: f.online_cpus \
        if hasattr(f, "online_cpus") else f.ncpu

    def fake_open(path, *args, **kwargs):
        if path == "/sys/devices/system/cpu/possible":
            return io.StringIO(possible_mask(f.ncpu,
                                             getattr(f, "possible_form", 0)))
        return open(path, *args, **kwargs)
    eb_arraymap.open = fake_open

    class _Os:
        """os for ebpfcat.ebpf: closing a fake program fd closes nothing"""
        def __getattr__(self, name):
            return getattr(os, name)

        @staticmethod
        def close(fd):
            if fd in f.progs or fd in f.maps:
                f.closed.append(fd)
                return
            os.close(fd)
    saved_os = eb_ebpf.os
    eb_ebpf.os = _Os()
    try:
        yield f
    finally:
        eb_ebpf.os = saved_os
        del eb_arraymap.open
        (eb_bpf.bpf, eb_bpf.addrof, eb_bpf.addressof, eb_arraymap.mmap,
         eb_arraymap.cpu_count) = saved
