#!/bin/bash
# offline set-up: make sure hypothesis is importable by /venv/bin/python
cd "$(dirname "$0")" || exit 2
export PIP_NO_INDEX=1
if ! PYTHONPATH="$PWD/.deps" /venv/bin/python -c "import hypothesis" 2>/dev/null; then
    /venv/bin/pip install --no-index --find-links /opt/veriftools/wheels \
        --target "$PWD/.deps" hypothesis || exit 2
fi
PYTHONPATH="/repo:$PWD:$PWD/.deps" PYTHONDONTWRITEBYTECODE=1 /venv/bin/python -c "import hypothesis, ebpfcat, vf.runner; print('setup ok', hypothesis.__version__, ebpfcat.__file__)" || exit 2
