"""C21 Fast-group frames only write outputs computed in the same pass

domain : the histories of the dispatcher machine (C22) for sync groups with
         random write / read datagram layouts (FMMU and direct), random
         returned working counters (right and wrong), wkc_errors zero (output
         disabled) and non-zero, registered and unregistered program.
oracle : c22.check_pass after every delivery: a fresh frame from user space
         has every writer command = NOP; a pass in which the group program ran
         with output enabled sets exactly the writer commands back, zeroes
         exactly their working counters and adds one error per writer whose
         counter differed; any other pass leaves all of that untouched; a
         frame returned to the bus with an enabled writer was processed by the
         group program in that pass.
user space (a quarter of the cases): the real FastSyncGroup.run() loop on the
         virtual-time rig; the responses it gets are frames as the kernel side
         hands them up (write datagrams enabled, non-zero loop counter), some
         transmissions are lost so that the 20 ms time-out path re-sends;
         every cyclic transmission must leave user space with all write
         datagrams = NOP and loop counter 0.
"""
from hypothesis import strategies as st

from ..sim import groups
from . import c22

ID = "C21"
LEVEL = "exploration"
TECHNIQUE = ("model-based stateful testing on the real dispatcher and group "
             "bytecode (interpreter + kernel): per-pass frame invariant over "
             "Hypothesis-generated histories")
RULE = ("histories as in C22, with layouts biased to several writers and "
        "wrong working counters; non-trivial = the history contains an "
        "active pass over >= 1 writer and (a wrong working counter was "
        "counted, or a passive / output-disabled pass occurred as well); "
        "distinct by (writer count, rule kinds sequence, error count); for the "
        "user-space part non-trivial = the group has a write datagram and at "
        "least one response was an activated frame")
ASSUMPTIONS = c22.ASSUMPTIONS + [
    "bytes inside the terminals' process-data regions are the devices' "
    "business (C19) and are not compared here",
]
EXAMPLES = {"quick": 80, "thorough": 1500}
MIN_NONTRIVIAL = {"quick": 80, "thorough": 1500}
CASE_TIMEOUT = 300

RULES = ["deliver"] * 10 + ["inject"] * 3 + ["lose", "register",
                                              "unregister"]


def strategy(tier):
    return st.one_of(kernel_side_strategy(), kernel_side_strategy(),
                     kernel_side_strategy(), userspace_strategy())


def kernel_side_strategy():
    rule = st.tuples(st.sampled_from(RULES), st.integers(0, 5),
                     st.lists(st.integers(0, 6), max_size=3))
    return st.fixed_dictionaries({
        "group": groups.fast_group_strategy(
            max_terminals=3,
            types=["AnalogOutput", "DigitalOutput", "AnalogOutput",
                   "Custom", "AnalogInput"]),
        "counter": st.sampled_from([0, 1, 2, 3, 254, 255])
        | st.integers(0, 2**32 - 1),
        "registered": st.sampled_from([True, True, True, False]),
        "wkc_errors": st.sampled_from([0, 1, 1, 7, 2**32 - 1]),
        "wrong_delta": st.sampled_from([1, 1, 255, 256, 513, 65535]),
        "rules": st.lists(rule, min_size=3, max_size=25).map(
            lambda rs: [("inject", 0, []), ("inject", 0, [])] + rs),
    })


def userspace_strategy():
    """the user-space half: the real FastSyncGroup.run() loop; the frames it
    gets back are the ones the kernel side handed up (write datagrams enabled,
    non-zero loop counter); some transmissions get lost"""
    return st.fixed_dictionaries({
        "kind": st.just("userspace"),
        "group": groups.fast_group_strategy(
            max_terminals=2,
            types=["AnalogOutput", "DigitalOutput", "AnalogInput", "Custom"]),
        "lose": st.lists(st.integers(0, 8), max_size=2, unique=True),
        "active": st.lists(st.booleans(), min_size=4, max_size=4),
        "loopbyte": st.integers(1, 255),
    })


def run_userspace(case):
    import asyncio
    import struct
    import ebpfcat.ebpfcat as ebmod
    from ebpfcat.ebpf import AssembleError
    from ..sim import cyclic
    from ..sim import loop as simloop
    from ..vm import kernel
    obs = {}
    real_mono = ebmod.monotonic
    ebmod.SyncGroup.packet_index = 1000
    classes = ["userspace"]

    async def go(loop):
        ebmod.monotonic = loop.time
        tx = {"n": 0}

        def fault(no, frame):
            if struct.unpack_from("<I", frame, 4)[0] != rig.sg.packet_index:
                return {}
            tx["n"] += 1
            return {"lose": True} if tx["n"] - 1 in case["lose"] else {}

        def on_response(no, sent, back):
            if struct.unpack_from("<I", sent, 4)[0] != rig.sg.packet_index:
                return back
            k = sum(1 for s, r in rig.frames
                    if struct.unpack_from("<I", s, 4)[0]
                    == rig.sg.packet_index)
            if not case["active"][k % len(case["active"])]:
                return back
            # what the kernel side hands up: an activated frame
            back = bytearray(back)
            back[3] = case["loopbyte"]
            for start, stop, cmd in rig.sg.packet.on_the_fly:
                back[start] = cmd.value
            return bytes(back)

        rig = cyclic.Rig(loop, case["group"], "fast", fault=fault,
                         on_response=on_response)
        obs["rig"] = rig
        for t in rig.sg.terminals:
            t.fmmu_used = [None] * 4
        task = rig.sg.start()
        for _ in range(4000):
            await asyncio.sleep(0.001)
            n = sum(1 for f in rig.transport.sent
                    if struct.unpack_from("<I", f, 4)[0]
                    == rig.sg.packet_index)
            if n >= 12 or task.done():
                break
        task.cancel()
        try:
            await task
        except asyncio.CancelledError:
            obs["end"] = "cancelled"
        except Exception as e:
            obs["end"] = f"{type(e).__name__}: {e}"
        else:
            obs["end"] = "returned"

    with kernel.tracking():
        try:
            simloop.run(go, budget=3000000)
        except (AssembleError, OverflowError):
            return dict(ok=True, nontrivial=False,
                        classes=classes + ["rejected"])
        except (simloop.LoopStalled, simloop.BudgetExceeded) as e:
            obs["end"] = f"stalled: {e!r}"
        finally:
            ebmod.monotonic = real_mono
    rig = obs.get("rig")
    if rig is None or not rig.sg.packet.data:
        return dict(ok=True, nontrivial=False, classes=classes + ["empty"])
    sent = [f for f in rig.transport.sent
            if struct.unpack_from("<I", f, 4)[0] == rig.sg.packet_index]
    writers = rig.sg.packet.on_the_fly

    def fail(what):
        return dict(ok=False, nontrivial=True, classes=classes,
                    bucket=("userspace", what[:40]),
                    what=f"user-space side: {what}; lost transmissions "
                         f"{case['lose']}, activated responses "
                         f"{case['active']}, {len(sent)} cyclic transmissions"
                         f", writers {[(a, c.name) for a, b, c in writers]}")
    if obs.get("end") != "cancelled":
        return fail(f"the group task ended as '{obs.get('end')}'")
    if len(sent) < 6:
        return fail(f"only {len(sent)} cyclic transmissions in 4 s")
    for i, f in enumerate(sent):
        bad = [start for start, stop, cmd in writers if f[start] != 0]
        if bad:
            return fail(f"cyclic transmission {i} left user space with "
                        f"enabled write datagrams at {bad}")
        if f[3] != 0:
            return fail(f"cyclic transmission {i} left user space with loop "
                        f"counter {f[3]} (a fresh frame carries 0)")
    lost = [i for i in case["lose"] if i < len(sent) - 1]
    return dict(ok=True,
                nontrivial=bool(writers) and any(case["active"]),
                key=repr(("u", len(writers), sorted(lost), case["active"])),
                classes=classes + (["lost-transmission"] if lost else [])
                + [f"writers={min(len(writers), 4)}"],
                summary={"history": [f"{len(sent)} cyclic transmissions"],
                         "lost": lost})


def run_case(case):
    if case.get("kind") == "userspace":
        return run_userspace(case)
    res = c22.run_case(case, only_c21=True)
    if not res["ok"] or "stats" not in res:
        return res
    s = res["stats"]
    res["nontrivial"] = bool(
        res.get("writers") and s["active"] >= 1
        and (s["errors"] or s["passive"] or s["output-disabled-runs"]))
    res["classes"] = list(res["classes"]) + [
        f"writers={min(res.get('writers', 0), 4)}",
        "wrong-wkc-counted" if s["errors"] else "no-wkc-error"]
    res["key"] = repr((res.get("writers"), res["summary"]["history"],
                       s["errors"]))
    return res


KNOWN = {}
