"""C08 Array-map variables read back the same on both sides

domain : declaration sets of 1-12 array-map variables (single formats, x,
         multi-element formats like 3H / 4B / 2I / 16I) spread over a base
         class, a derived class (which may override a name) and 0-3
         subprogram instances of 1-2 classes; plain and per-CPU maps; values
         from the boundary pool; optionally a second, bigger program object
         of the same class is created before the values are exchanged.
checked: byte ranges pairwise disjoint and inside the map; Python -> program
         (Python writes, the program copies to an output variable, for
         multi-element variables element k through get_address) and program ->
         Python (program stores, Python reads: decimals for x, tuples for
         multi-element, one value per CPU for per-CPU maps) are identities.
oracle : struct and the declared formats.
"""
import struct
from fractions import Fraction

from hypothesis import strategies as st

from ebpfcat.arraymap import ArrayMap, PerCPUArrayMap
from ebpfcat.ebpf import AssembleError, SubProgram
from ebpfcat.xdp import XDP, XDPExitCode

from ..gen import dsl
from ..runner import HarnessError
from ..vm import kernel

ID = "C08"
LEVEL = "exploration"
TECHNIQUE = ("property-based round-trip testing through real kernel maps: "
             "Hypothesis-generated declaration sets, struct as oracle")
RULE = ("Hypothesis draws (map kind, variable declarations over base / "
        "derived / subprogram classes, values per direction); the program is "
        "loaded and run once under BPF_PROG_TEST_RUN; non-trivial = >= 2 "
        "variables of different sizes, or a multi-element / x / per-CPU / "
        "inherited / subprogram variable; distinct by (map kind, sorted "
        "formats with their owners, override); plus an enumerated family "
        "of fixed-point variables with raw values of 45-63 bits")
ASSUMPTIONS = [
    "runs against real kernel maps (bpf(2) needed); the interpreter is not "
    "involved",
    "per-CPU variables can only be read from Python (as documented): exactly "
    "one CPU must show the stored value, all others 0",
    "a build failure (exception other than AssembleError) for a documented "
    "declaration form counts as a violation: the values cannot be exchanged",
]
EXAMPLES = {"quick": 150, "thorough": 2500}
MIN_NONTRIVIAL = {"quick": 300, "thorough": 4000}

SINGLES = "BHIQbhiq"
MULTI = ["3H", "4B", "2I", "2Q", "5B", "2h", "3i", "16I", "3b", "2q"]


def selftest():
    if not kernel.available():
        raise HarnessError("bpf(2) is not usable: C08 needs kernel maps")


def fmt_strategy():
    return st.one_of(st.sampled_from(SINGLES), st.sampled_from(SINGLES),
                     st.just("x"), st.sampled_from(MULTI))


def value_for(draw, f):
    if f == "x":
        return draw(st.sampled_from([29, 7, 100000, -250000, 123456])
                    | st.integers(-10**10, 10**10))
    n = int(f[:-1]) if len(f) > 1 else 1
    lo, hi = dsl.fmt_range(f[-1])
    pool = [lo, hi, 0, 1, hi // 2, lo + 1]
    vals = [draw(st.sampled_from(pool) | st.integers(lo, hi))
            for _ in range(n)]
    return vals if len(f) > 1 else vals[0]


@st.composite
def case_strategy(draw):
    percpu = draw(st.integers(0, 3)) == 0
    nbase = draw(st.integers(0, 4))
    nder = draw(st.integers(1, 5))
    base = [{"name": f"b{i}", "fmt": draw(fmt_strategy())}
            for i in range(nbase)]
    derived = [{"name": f"d{i}", "fmt": draw(fmt_strategy())}
               for i in range(nder)]
    override = None
    if base and draw(st.integers(0, 3)) == 0:
        override = draw(st.sampled_from(base))["name"]
        derived.append({"name": override, "fmt": draw(fmt_strategy())})
    nsubcls = draw(st.integers(0, 2))
    subclasses = [[{"name": f"s{c}_{i}", "fmt": draw(fmt_strategy())}
                   for i in range(draw(st.integers(1, 3)))]
                  for c in range(nsubcls)]
    subs = [draw(st.integers(0, nsubcls - 1))
            for _ in range(draw(st.integers(1, 3)))] if nsubcls else []
    # variable instances and their values
    inst = []
    eff = {v["name"]: v["fmt"] for v in base}
    eff.update({v["name"]: v["fmt"] for v in derived})
    for name, f in eff.items():
        inst.append(["main", name, f])
    for si, ci in enumerate(subs):
        for v in subclasses[ci]:
            inst.append([si, v["name"], v["fmt"]])
    values = []
    for owner, name, f in inst:
        values.append({"py": value_for(draw, f), "prog": value_for(draw, f),
                       "k": draw(st.integers(0, 63))})
    return {"percpu": percpu, "base": base, "derived": derived,
            "override": override, "subclasses": subclasses, "subs": subs,
            "values": values, "sibling": draw(st.booleans())}


def strategy(tier):
    return case_strategy()


BIG_X = [4503599627370497, 4503599627370496, 6000000000000001,
         9007199254740991, 9007199254740989, 7205759403792793,
         (1 << 53) + 2, (1 << 56) + 256, (1 << 62) + 4096,
         (1 << 50) + 1, (1 << 44) + 12345]


def enumerate_cases(tier):
    """fixed-point variables written from Python with values whose raw integer
    needs 45 to 63 bits (floats have 53)"""
    for sign in (1, -1):
        for i in range(0, len(BIG_X), 2):
            vals = [sign * v for v in BIG_X[i:i + 2]]
            yield {"percpu": False, "base": [], "override": None,
                   "derived": [{"name": f"d{j}", "fmt": "x"}
                               for j in range(len(vals))],
                   "subclasses": [], "subs": [], "sibling": False,
                   "values": [{"py": v, "prog": 29, "k": 0} for v in vals]}


def x_raw(v):
    """the integer a fixed-point variable holds after Python assigned the
    float v / 100000: the float times 100000, rounded to the nearest integer.
    Below 2**51 that is v itself; from 2**52 on floats are integers and the
    product is the correctly rounded exact product."""
    if abs(v) < 1 << 51:
        return v
    return round(Fraction(v / 100000) * 100000)


def nelem(f):
    return int(f[:-1]) if len(f) > 1 else 1


def raw_of(f, v):
    """the integer the program sees for a python-side value"""
    return v


def run_case(case):
    percpu = case["percpu"]
    # one plain ArrayMap per program (they all use r7 as base register):
    # the output variables live in the same map unless it is a per-CPU map
    the_map = PerCPUArrayMap() if percpu else ArrayMap()
    omap = ArrayMap() if percpu else the_map
    eff = {v["name"]: v["fmt"] for v in case["base"]}
    eff.update({v["name"]: v["fmt"] for v in case["derived"]})
    inst = [["main", n, f] for n, f in eff.items()]
    for si, ci in enumerate(case["subs"]):
        for v in case["subclasses"][ci]:
            inst.append([si, v["name"], v["fmt"]])
    values = case["values"]
    fmts = sorted((str(o), f) for o, n, f in inst)
    classes = ["percpu" if percpu else "array",
               f"subs={len(case['subs'])}",
               "inherit" if case["base"] else "flat"]
    if case["override"]:
        classes.append("override")
    for o, n, f in inst:
        classes.append("fmt:" + ("multi" if len(f) > 1 else f))

    def obj(e, owner):
        return e if owner == "main" else e.subprograms[owner]

    def program(e):
        # python -> program: copy every variable (element k) to its output
        if not percpu:
            for i, (owner, name, f) in enumerate(inst):
                o = obj(e, owner)
                if len(f) == 1:
                    setattr(e, f"o{i}", getattr(o, name))
                else:
                    k = values[i]["k"] % nelem(f)
                    size = dsl.SIZES[f[-1]]
                    with getattr(o, name).get_address(None, False, False) \
                            as (dst, _):
                        arr = getattr(e, "m" + f[-1])
                        setattr(e, f"o{i}", arr[e.r[dst] + size * k])
        # program -> python: store the program-side values
        for i, (owner, name, f) in enumerate(inst):
            o = obj(e, owner)
            v = values[i]["prog"]
            if f == "x":
                setattr(o, name, v / 100000)
            elif len(f) == 1:
                setattr(o, name, v)
            else:
                size = dsl.SIZES[f[-1]]
                with getattr(o, name).get_address(None, False, False) \
                        as (dst, _):
                    arr = getattr(e, "m" + f[-1])
                    for k, x in enumerate(v):
                        arr[e.r[dst] + size * k] = x
        e.exit(XDPExitCode.TX)

    def fail(what, **kw):
        return dict(ok=False, nontrivial=True, classes=classes,
                    what=f"{describe(case)}: {what}", **kw)

    with kernel.tracking() as tracker:
        try:
            bns = {"license": "GPL", "minimumPacketSize": 20,
                   "vmap": the_map}
            if percpu:
                bns["omap"] = omap
            for v in case["base"]:
                bns[v["name"]] = the_map.globalVar(v["fmt"])
            if case["base"]:
                Base = type("Base", (XDP,), bns)
                dns = {}
                parent = Base
            else:
                dns = bns
                parent = XDP
            for v in case["derived"]:
                dns[v["name"]] = the_map.globalVar(v["fmt"])
            for i, (owner, name, f) in enumerate(inst):
                of = "x" if f == "x" else (
                    "q" if f[-1].islower() else "Q")
                dns[f"o{i}"] = omap.globalVar(of)
            dns["program"] = program
            cls = type("Prog", (parent,), dns)
            subcls = [type(f"S{c}", (SubProgram,),
                           {v["name"]: the_map.globalVar(v["fmt"])
                            for v in vs})
                      for c, vs in enumerate(case["subclasses"])]
            subobjs = [subcls[ci]() for ci in case["subs"]]
            e = cls(subprograms=subobjs) if subobjs else cls()
            loaded = dsl.Loaded(e)
            if case.get("sibling") and subcls and loaded.status == "ok":
                # a second, bigger program object of the same class is
                # created afterwards (one more subprogram instance); the
                # first one must not be affected.  (Only "bigger": were the
                # first one's reads sized by the second, a bigger buffer is
                # harmless for the real kernel.)
                msize_own = the_map.size
                sib = cls(subprograms=[subcls[ci]() for ci in case["subs"]]
                          + [sc() for sc in subcls])
                dsl.Loaded(sib)
                classes.append("sibling-object")
            else:
                msize_own = None
        except AssembleError:
            return dict(ok=True, nontrivial=False,
                        classes=classes + ["rejected:AssembleError"])
        except HarnessError:
            raise
        except Exception as err:
            import traceback
            tb = traceback.extract_tb(err.__traceback__)[-1]
            return fail(f"declaring / building the program raised "
                        f"{type(err).__name__}: {err} "
                        f"({tb.name}:{tb.lineno})",
                        facts=["build-exception",
                               "inherit" if case["base"] else "flat"],
                        bucket=("build", type(err).__name__, tb.name))
        if loaded.status == "rejected":
            return dict(ok=True, nontrivial=False,
                        classes=classes + ["rejected:AssembleError"])
        if loaded.status != "ok":
            return dict(ok=True, nontrivial=False,
                        classes=classes + ["verifier-rejected"])
        # ---- layout
        msize = msize_own or the_map.size
        ranges = []
        for owner, name, f in inst:
            o = obj(e, owner)
            pos = o.__dict__[name]
            size = struct.calcsize(f) if f != "x" else 8
            ranges.append((pos, pos + size, f"{owner}.{name}:{f}"))
            if pos < 0 or pos + size > msize:
                return fail(f"{owner}.{name}:{f} at {pos}..{pos + size} "
                            f"outside the map of {msize} bytes",
                            bucket="layout")
        ranges.sort()
        for (a0, a1, an), (b0, b1, bn) in zip(ranges, ranges[1:]):
            if b0 < a1:
                return fail(f"{an} at {a0}..{a1} overlaps {bn} at "
                            f"{b0}..{b1}",
                            facts=["overlap"] + (["override"] if
                                                 case["override"] else []),
                            bucket=("overlap", bool(case["override"])))
        # ---- python -> program
        if not percpu:
            for i, (owner, name, f) in enumerate(inst):
                v = values[i]["py"]
                try:
                    setattr(obj(e, owner), name,
                            v / 100000 if f == "x" else
                            (tuple(v) if len(f) > 1 else v))
                except Exception as err:
                    return fail(f"Python assignment of {v} to {name}:{f} "
                                f"raised {type(err).__name__}: {err}",
                                bucket=("py-set", f[-1]))
        held = {}
        if percpu:
            # sequences fetched now must stay live views of the map
            e.vmap.read()
            for i, (owner, name, f) in enumerate(inst):
                held[i] = getattr(obj(e, owner), name)
        retval, _ = kernel.test_run(loaded.fd, bytes(64))
        if retval != 3:
            return fail(f"program returned {retval}")
        # outputs
        if not percpu:
            for i, (owner, name, f) in enumerate(inst):
                got = getattr(e, f"o{i}")
                v = values[i]["py"]
                want = v[values[i]["k"] % nelem(f)] if len(f) > 1 else v
                if f == "x":
                    want = x_raw(want) / 100000
                if got != want:
                    return fail(f"Python wrote {v} to {owner}.{name}:{f}, "
                                f"the program read {got}",
                                bucket=("py->prog", f[-1]))
        # ---- a Python write that the format refuses leaves no trace: the
        # variable keeps the value the program stored
        if not percpu:
            for i, (owner, name, f) in enumerate(inst):
                if f == "x":
                    bad = 1e30
                else:
                    lo, hi = dsl.fmt_range(f[-1])
                    bad = hi + 1 + values[i]["k"] if values[i]["k"] % 2 \
                        else lo - 1
                    if len(f) > 1:
                        bad = tuple([1] * (nelem(f) - 1) + [bad])
                try:
                    setattr(obj(e, owner), name, bad)
                except (struct.error, OverflowError):
                    continue
                # (accepted after all: write the stored value again)
                v = values[i]["prog"]
                setattr(obj(e, owner), name, v / 100000 if f == "x" else (
                    tuple(v) if len(f) > 1 else v))
        # ---- program -> python
        if percpu:
            e.vmap.read()
        for i, (owner, name, f) in enumerate(inst):
            v = values[i]["prog"]
            want = v / 100000 if f == "x" else (
                tuple(v) if len(f) > 1 else v)
            try:
                got = getattr(obj(e, owner), name)
                if percpu:
                    got = list(got)
            except Exception as err:
                return fail(f"Python read of {owner}.{name}:{f} raised "
                            f"{type(err).__name__}: {err}",
                            bucket=("py-get", f[-1], percpu))
            if percpu and list(held[i]) != got:
                return fail(f"the per-CPU sequence of {owner}.{name}:{f} "
                            f"fetched before the last read() shows "
                            f"{list(held[i])}, a fresh one {got}",
                            bucket=("percpu-held", f[-1]))
            if percpu:
                zero = tuple([0] * nelem(f)) if len(f) > 1 else 0
                if f == "x":
                    zero = 0.0
                hits = [g for g in got if g == want]
                rest = [g for g in got if g != want]
                ok = (len(hits) == 1 and all(g == zero for g in rest)) \
                    or (want == zero and not rest)
                if len(got) != kernel.possible_cpus():
                    return fail(f"per-CPU variable has {len(got)} entries, "
                                f"{kernel.possible_cpus()} possible CPUs")
                if not ok:
                    return fail(f"program stored {want} in per-CPU "
                                f"{owner}.{name}:{f}, Python reads {got}",
                                bucket=("prog->py-percpu", f[-1]))
            elif got != want:
                return fail(f"program stored {v} in {owner}.{name}:{f}, "
                            f"Python reads {got} (after Python writes of "
                            f"out-of-range values to the variables of the "
                            f"map, which were refused)",
                            bucket=("prog->py", f[-1]))
        sizes = {struct.calcsize(f) if f != "x" else 8 for o, n, f in inst}
        special = percpu or case["base"] or case["subs"] or any(
            len(f) > 1 or f == "x" for o, n, f in inst)
        return dict(ok=True, nontrivial=len(sizes) >= 2 or bool(special),
                    key=repr((percpu, fmts, case["override"])),
                    classes=classes,
                    summary={"layout": ranges, "map_size": msize})


def describe(case):
    b = ",".join(f"{v['name']}:{v['fmt']}" for v in case["base"])
    d = ",".join(f"{v['name']}:{v['fmt']}" for v in case["derived"])
    s = ";".join(",".join(f"{v['name']}:{v['fmt']}" for v in c)
                 for c in case["subclasses"])
    return (f"{'per-CPU' if case['percpu'] else 'array'} map, base[{b}] "
            f"derived[{d}] subclasses[{s}] instances{case['subs']}")


KNOWN = {}
