"""Independent eBPF interpreter for the ISA subset ebpfcat emits.

Written from the kernel's instruction-set documentation (bpf/standardization/
instruction-set.rst); shares no code with ebpfcat.  Programs are given as the
byte string EBPF.assemble() returns.

Memory is a set of regions (stack, xdp ctx, packet, map values) placed at
fixed bases below 2**31, so pointer values survive 32 bit moves (the kernel
verifier, not this interpreter, is the judge of pointer hygiene: C05).
Uninitialised registers and out-of-bounds accesses raise Fault.
"""
import struct

MASK64 = (1 << 64) - 1
MASK32 = (1 << 32) - 1

STACK_BASE = 0x20000000   # r10 = STACK_BASE + 512
CTX_BASE = 0x21000000
PKT_BASE = 0x22000000
MAPPTR_BASE = 0x30000000  # "pointer to struct bpf_map", one per fd
MAPVAL_BASE = 0x40000000  # map values, 1 MiB apart

XDP_ABORTED, XDP_DROP, XDP_PASS, XDP_TX, XDP_REDIRECT = range(5)


class Fault(Exception):
    """the program did something the kernel would not let it do"""


def s64(v):
    v &= MASK64
    return v - (1 << 64) if v >> 63 else v


def s32(v):
    v &= MASK32
    return v - (1 << 32) if v >> 31 else v


class Insn:
    __slots__ = ("op", "dst", "src", "off", "imm")

    def __init__(self, op, dst, src, off, imm):
        self.op, self.dst, self.src, self.off, self.imm = \
            op, dst, src, off, imm

    def __repr__(self):
        return (f"Insn({self.op:#04x}, dst={self.dst}, src={self.src}, "
                f"off={self.off}, imm={self.imm})")


def decode(code):
    out = []
    for i in range(0, len(code), 8):
        op, regs, off, imm = struct.unpack_from("<BBhi", code, i)
        out.append(Insn(op, regs & 0xf, regs >> 4, off, imm))
    return out


class Region:
    __slots__ = ("base", "data", "name", "writable", "init", "alive")

    def __init__(self, base, data, name, writable=True, track_init=False):
        self.base = base
        self.data = data
        self.name = name
        self.writable = writable
        self.init = bytearray(len(data)) if track_init else None
        self.alive = True


class Memory:
    def __init__(self):
        self.regions = {}

    def add(self, region):
        self.regions[region.base >> 20] = region
        return region

    def find(self, addr, size, write=False):
        r = self.regions.get(addr >> 20)
        if r is None or not r.alive:
            raise Fault(f"access to unmapped address {addr:#x}")
        off = addr - r.base
        if off < 0 or off + size > len(r.data):
            raise Fault(f"{r.name}: access of {size} bytes at offset {off} "
                        f"outside 0..{len(r.data)}")
        if write and not r.writable:
            raise Fault(f"{r.name}: write to read-only memory")
        return r, off

    def load(self, addr, size):
        r, off = self.find(addr, size)
        if r.init is not None and not all(r.init[off:off + size]):
            raise Fault(f"{r.name}: read of uninitialised bytes at "
                        f"offset {off} size {size}")
        return int.from_bytes(r.data[off:off + size], "little")

    def store(self, addr, size, value):
        r, off = self.find(addr, size, True)
        r.data[off:off + size] = (value & ((1 << (8 * size)) - 1)) \
            .to_bytes(size, "little")
        if r.init is not None:
            r.init[off:off + size] = b"\1" * size

    def read_bytes(self, addr, n):
        r, off = self.find(addr, n)
        if r.init is not None and not all(r.init[off:off + n]):
            raise Fault(f"{r.name}: helper reads uninitialised bytes at "
                        f"offset {off} size {n}")
        return bytes(r.data[off:off + n])

    def write_bytes(self, addr, data):
        r, off = self.find(addr, len(data), True)
        r.data[off:off + len(data)] = data
        if r.init is not None:
            r.init[off:off + len(data)] = b"\1" * len(data)


# --------------------------------------------------------------------- maps

class MapModel:
    kind = "?"

    def __init__(self, fd, key_size, value_size, max_entries):
        self.fd = fd
        self.key_size = key_size
        self.value_size = value_size
        self.max_entries = max_entries


class ArrayModel(MapModel):
    kind = "array"

    def __init__(self, fd, key_size, value_size, max_entries, ncpu=None):
        super().__init__(fd, key_size, value_size, max_entries)
        self.ncpu = ncpu                      # None: plain array
        n = 1 if ncpu is None else ncpu
        self.stride = (value_size + 7) // 8 * 8
        # values[cpu][index]
        self.values = [[bytearray(self.stride) for _ in range(max_entries)]
                       for _ in range(n)]

    def value(self, index, cpu=0):
        return self.values[0 if self.ncpu is None else cpu][index]


class HashModel(MapModel):
    kind = "hash"

    def __init__(self, fd, key_size, value_size, max_entries, lru=False):
        super().__init__(fd, key_size, value_size, max_entries)
        self.lru = lru
        self.entries = {}     # key bytes -> bytearray
        self.order = []       # lru order


class ProgArrayModel(MapModel):
    kind = "prog_array"

    def __init__(self, fd, key_size, value_size, max_entries):
        super().__init__(fd, key_size, value_size, max_entries)
        self.progs = {}       # index -> program key (looked up in machine)


# ------------------------------------------------------------------ machine

class Machine:
    """one program instance"""

    def __init__(self, code, maps=None, packet=None, cpu=0, ktimes=None,
                 randoms=None, programs=None, shared_mem=None):
        self.insns = decode(code) if isinstance(code, (bytes, bytearray)) \
            else code
        self.maps = maps or {}           # fd -> MapModel
        self.cpu = cpu
        self.ktimes = list(ktimes or [])
        self.randoms = list(randoms or [])
        self.programs = programs or {}   # fd -> code bytes (for tail calls)
        self.reg = [None] * 11
        self.mem = Memory()
        self.stack = self.mem.add(Region(STACK_BASE, bytearray(512), "stack",
                                         track_init=True))
        self.reg[10] = STACK_BASE + 512
        self.packet = bytearray(packet if packet is not None else b"")
        self.pkt_region = self.mem.add(Region(PKT_BASE, self.packet, "packet"))
        self.ctx = self.mem.add(Region(CTX_BASE, bytearray(24), "ctx",
                                       writable=False))
        self.reg[1] = CTX_BASE
        self.pc = 0
        self.done = False
        self.retval = None
        self.steps = 0
        self.flags = set()    # div-by-zero etc., for the oracles
        self.tail_calls = []
        self.helper_calls = []
        self._mapval_regions = {}
        self._next_mapval = MAPVAL_BASE
        self._mapptr = {}
        self._mapptr_rev = {}
        for n, fd in enumerate(sorted(self.maps)):
            addr = MAPPTR_BASE + (n << 20)
            self._mapptr[fd] = addr
            self._mapptr_rev[addr] = self.maps[fd]
            self.mem.add(Region(addr, bytearray(0), f"mapptr{fd}",
                                writable=False))

    # ------------------------------------------------------------- values
    def get(self, r):
        v = self.reg[r]
        if v is None:
            raise Fault(f"read of uninitialised register r{r} at pc "
                        f"{self.pc}")
        return v

    def mapval_addr(self, buf, name):
        key = id(buf)
        reg = self._mapval_regions.get(key)
        if reg is None:
            reg = self.mem.add(Region(self._next_mapval, buf, name))
            self._mapval_regions[key] = reg
            self._next_mapval += 1 << 20
        reg.alive = True
        return reg.base

    # --------------------------------------------------------------- run
    def run(self, max_steps=100000):
        while not self.done:
            self.step()
            if self.steps > max_steps:
                raise Fault("step budget exceeded (loop?)")
        return self.retval

    def step(self):
        if self.pc < 0 or self.pc >= len(self.insns):
            raise Fault(f"pc {self.pc} outside program")
        i = self.insns[self.pc]
        self.steps += 1
        cls = i.op & 7
        if cls in (4, 7):
            self._alu(i, cls == 7)
            self.pc += 1
        elif cls in (5, 6):
            self._jmp(i, cls == 5)
        elif cls == 1:      # LDX
            if i.op & 0xe0 != 0x60:
                raise Fault(f"unsupported LDX mode {i.op:#x}")
            size = {0: 4, 8: 2, 0x10: 1, 0x18: 8}[i.op & 0x18]
            addr = (self.get(i.src) + i.off) & MASK64
            self.reg[i.dst] = self._load(addr, size)
            self.pc += 1
        elif cls == 2:      # ST imm
            if i.op & 0xe0 != 0x60:
                raise Fault(f"unsupported ST mode {i.op:#x}")
            size = {0: 4, 8: 2, 0x10: 1, 0x18: 8}[i.op & 0x18]
            addr = (self.get(i.dst) + i.off) & MASK64
            self.mem.store(addr, size, i.imm & MASK64)
            self.pc += 1
        elif cls == 3:      # STX / atomic
            size = {0: 4, 8: 2, 0x10: 1, 0x18: 8}[i.op & 0x18]
            addr = (self.get(i.dst) + i.off) & MASK64
            mode = i.op & 0xe0
            if mode == 0x60:
                self.mem.store(addr, size, self.get(i.src))
            elif mode == 0xc0:
                if size not in (4, 8):
                    raise Fault("atomic op on 1/2 byte operand")
                if i.imm != 0:
                    raise Fault(f"unsupported atomic op imm={i.imm:#x}")
                if self.mem.find(addr, size)[0] is self.pkt_region:
                    self.flags.add("atomic-on-packet")
                old = self.mem.load(addr, size)
                self.mem.store(addr, size, old + self.get(i.src))
            else:
                raise Fault(f"unsupported STX mode {i.op:#x}")
            self.pc += 1
        elif cls == 0:      # LD
            if i.op != 0x18:
                raise Fault(f"unsupported LD {i.op:#x}")
            nxt = self.insns[self.pc + 1]
            if i.src == 0:
                self.reg[i.dst] = ((i.imm & MASK32)
                                   | ((nxt.imm & MASK32) << 32))
            elif i.src == 1:
                if i.imm not in self.maps:
                    raise Fault(f"LD_IMM64 of unknown map fd {i.imm}")
                self.reg[i.dst] = self._mapptr[i.imm]
            else:
                raise Fault(f"unsupported LD_IMM64 src {i.src}")
            self.pc += 2
        return not self.done

    def _load(self, addr, size):
        r = self.mem.regions.get(addr >> 20)
        if r is self.ctx:
            off = addr - CTX_BASE
            if size != 4 or off not in (0, 4, 8):
                raise Fault(f"invalid ctx access off={off} size={size}")
            return {0: PKT_BASE, 4: PKT_BASE + len(self.packet),
                    8: PKT_BASE}[off]
        return self.mem.load(addr, size)

    # --------------------------------------------------------------- ALU
    def _alu(self, i, is64):
        code = i.op >> 4
        mask = MASK64 if is64 else MASK32
        bits = 64 if is64 else 32
        if code == 0xd:     # byte swap, ALU class only
            v = self.get(i.dst)
            n = i.imm
            if n not in (16, 32, 64):
                raise Fault(f"bad endian width {n}")
            v &= (1 << n) - 1
            to_be = bool(i.op & 8)
            if is64:
                # BPF_ALU64 | BPF_END = unconditional bswap
                to_be = True
            if to_be:   # host is little endian
                v = int.from_bytes(v.to_bytes(n // 8, "little"), "big")
            self.reg[i.dst] = v
            return
        if code == 8:       # NEG
            self.reg[i.dst] = (-self.get(i.dst)) & mask
            return
        if i.op & 8:
            src = self.get(i.src)
        else:
            src = i.imm & MASK64 if is64 else i.imm & MASK32
        src &= mask
        if code == 0xb:     # MOV
            if i.off not in (0,):
                if i.off in (8, 16, 32) and i.op & 8:
                    v = src & ((1 << i.off) - 1)
                    if v >> (i.off - 1):
                        v -= 1 << i.off
                    self.reg[i.dst] = v & mask
                    return
                raise Fault(f"unsupported MOV off {i.off}")
            self.reg[i.dst] = src
            return
        dst = self.get(i.dst) & mask
        if code == 0:
            r = dst + src
        elif code == 1:
            r = dst - src
        elif code == 2:
            r = dst * src
        elif code == 3:
            if i.off == 1:
                a = s64(dst) if is64 else s32(dst)
                b = s64(src) if is64 else s32(src)
                if b == 0:
                    self.flags.add("div0")
                    r = 0
                else:
                    q = abs(a) // abs(b)
                    r = q if (a < 0) == (b < 0) else -q
            elif src == 0:
                self.flags.add("div0")
                r = 0
            else:
                r = dst // src
        elif code == 4:
            r = dst | src
        elif code == 5:
            r = dst & src
        elif code == 6:
            r = dst << (src & (bits - 1))
        elif code == 7:
            r = dst >> (src & (bits - 1))
        elif code == 9:
            if i.off == 1:
                a = s64(dst) if is64 else s32(dst)
                b = s64(src) if is64 else s32(src)
                if b == 0:
                    self.flags.add("mod0")
                    r = dst
                else:
                    m = abs(a) % abs(b)
                    r = -m if a < 0 else m
            elif src == 0:
                self.flags.add("mod0")
                r = dst
            else:
                r = dst % src
        elif code == 0xa:
            r = dst ^ src
        elif code == 0xc:
            sv = s64(dst) if is64 else s32(dst)
            r = sv >> (src & (bits - 1))
        else:
            raise Fault(f"unknown ALU op {i.op:#x}")
        self.reg[i.dst] = r & mask

    # --------------------------------------------------------------- JMP
    def _jmp(self, i, is64):
        code = i.op >> 4
        if code == 0:
            self.pc += 1 + i.off
            return
        if code == 8:
            if not is64:
                raise Fault("CALL in JMP32 class")
            self._call(i.imm)
            return
        if code == 9:
            self.retval = self.get(0) & MASK32
            self.done = True
            return
        a = self.get(i.dst)
        if i.op & 8:
            b = self.get(i.src)
        else:
            b = i.imm & MASK64   # sign extended imm
        if not is64:
            a &= MASK32
            b &= MASK32
            sa, sb = s32(a), s32(b)
        else:
            a &= MASK64
            b &= MASK64
            sa, sb = s64(a), s64(b)
        taken = {1: a == b, 2: a > b, 3: a >= b, 4: bool(a & b), 5: a != b,
                 6: sa > sb, 7: sa >= sb, 0xa: a < b, 0xb: a <= b,
                 0xc: sa < sb, 0xd: sa <= sb}.get(code)
        if taken is None:
            raise Fault(f"unknown jump {i.op:#x}")
        self.pc += 1 + (i.off if taken else 0)

    # ------------------------------------------------------------ helpers
    def _map_from_ptr(self, v):
        m = self._mapptr_rev.get(v)
        if m is None:
            raise Fault(f"helper called with a non-map pointer {v:#x}")
        return m

    def _call(self, func):
        args = self.reg[1:6]
        self.helper_calls.append(func)
        ret = None
        if func == 1:       # map_lookup_elem
            m = self._map_from_ptr(self.get(1))
            key = self.mem.read_bytes(self.get(2), m.key_size)
            ret = self._lookup(m, key)
        elif func == 2:     # map_update_elem
            m = self._map_from_ptr(self.get(1))
            key = self.mem.read_bytes(self.get(2), m.key_size)
            val = self.mem.read_bytes(self.get(3), m.value_size)
            ret = self._update(m, key, val, self.get(4)) & MASK64
        elif func == 3:     # map_delete_elem
            m = self._map_from_ptr(self.get(1))
            key = self.mem.read_bytes(self.get(2), m.key_size)
            ret = self._delete(m, key) & MASK64
        elif func == 5:     # ktime_get_ns
            if not self.ktimes:
                raise Fault("no ktime value supplied")
            ret = self.ktimes.pop(0) & MASK64
        elif func == 7:     # get_prandom_u32
            if not self.randoms:
                raise Fault("no prandom value supplied")
            ret = self.randoms.pop(0) & MASK32
        elif func == 8:     # get_smp_processor_id
            ret = self.cpu
        elif func == 12:    # tail_call
            if self.get(1) != CTX_BASE:
                raise Fault("tail_call: R1 is not the context pointer")
            m = self._map_from_ptr(self.get(2))
            if m.kind != "prog_array":
                raise Fault("tail_call on a map that is no program array")
            index = self.get(3) & MASK32
            target = m.progs.get(index) if index < m.max_entries else None
            self.tail_calls.append((index, target is not None))
            if target is not None:
                code = self.programs[target]
                self.insns = decode(code) if isinstance(
                    code, (bytes, bytearray)) else code
                self.pc = 0
                for r in range(10):
                    self.reg[r] = None
                self.reg[1] = CTX_BASE
                return
            ret = (-2) & MASK64
        else:
            raise Fault(f"unsupported helper {func}")
        self.reg[0] = ret
        for r in range(1, 6):
            self.reg[r] = None
        self.pc += 1

    def _lookup(self, m, key):
        if m.kind == "array":
            index = int.from_bytes(key[:4], "little")
            if index >= m.max_entries:
                return 0
            return self.mapval_addr(m.value(index, self.cpu),
                                    f"map{m.fd}[{index}]")
        if m.kind == "hash":
            e = m.entries.get(key)
            if e is None:
                return 0
            if m.lru and key in m.order:
                m.order.remove(key)
                m.order.append(key)
            return self.mapval_addr(e, f"map{m.fd}[{key.hex()}]")
        raise Fault(f"lookup on {m.kind} map")

    def _update(self, m, key, val, flags):
        flags &= 3
        if m.kind == "array":
            index = int.from_bytes(key[:4], "little")
            if index >= m.max_entries:
                return -7
            if flags == 1:
                return -17
            m.value(index, self.cpu)[:len(val)] = val
            return 0
        if m.kind == "hash":
            e = m.entries.get(key)
            if e is not None:
                if flags == 1:
                    return -17
                e[:] = val
                return 0
            if flags == 2:
                return -2
            if len(m.entries) >= m.max_entries:
                if not m.lru:
                    return -7
                victim = m.order.pop(0)
                old = m.entries.pop(victim)
                reg = self._mapval_regions.get(id(old))
                if reg is not None:
                    reg.alive = False
            m.entries[key] = bytearray(val)
            m.order.append(key)
            return 0
        raise Fault(f"update on {m.kind} map")

    def _delete(self, m, key):
        if m.kind == "hash":
            e = m.entries.pop(key, None)
            if e is None:
                return -2
            if key in m.order:
                m.order.remove(key)
            reg = self._mapval_regions.get(id(e))
            if reg is not None:
                reg.alive = False
            return 0
        if m.kind == "array":
            return -22
        raise Fault(f"delete on {m.kind} map")
