"""C29 Process-based sync groups share device variables correctly

domain : 1-3 generated device classes (a later one may derive from an earlier
         one and re-declare some of its variables with other formats - the
         first ones, or later ones only, so that a class in the middle of a
         chain does not mention what the class below it re-declares) with 1-6
         DeviceVars of random formats (B H I Q b h i q x and multi-element
         ones such as 3B, 3H, 2I), 1-4 device instances in one group;
         values written in the controlling process, read and overwritten in a
         child process started with the group's own spawn context, read back
         in the parent, which then writes again (often the value it had
         written before) and reads once more.
oracle : every value read on one side equals the last value written on the
         other; a variable nobody wrote keeps its value (variables of
         different devices never share storage).
"""
import importlib
import os
import shutil
import sys
import tempfile

from hypothesis import strategies as st

from ..gen import dsl
from ..runner import HarnessError

ID = "C29"
LEVEL = "exploration"
TECHNIQUE = ("property-based round-trip testing across a real spawned child "
             "process: Hypothesis-generated device classes and values")
RULE = ("Hypothesis draws (device classes with formats, instances, values "
        "for the parent-write and child-write phases, which variables each "
        "phase writes); non-trivial = at least 2 device instances and a "
        "variable written by the parent and another one by the child; "
        "distinct by (formats per class, instance classes, written sets)")
ASSUMPTIONS = [
    "the generated device classes are written to a scratch module so that "
    "the spawned child can import them",
    "the child is started with the group's own multiprocessing context and "
    "gets the pickled group; it does not run the EtherCAT loop",
    "a child that does not answer within 60 s of real time is inconclusive "
    "(counted, not judged)",
]
EXAMPLES = {"quick": 8, "thorough": 120}
MIN_NONTRIVIAL = {"quick": 30, "thorough": 250}
CASE_TIMEOUT = 120

FMTS = list("BHIQbhiqx") + list("BHIQbhiqx") + [
    "3B", "3H", "2I", "5B", "3b", "2h",
    # several members of different size: the native layout has padding
    "BI", "HQ", "BH", "bq"]


def letters(f):
    """the struct letters of a multi-element format"""
    if f[0].isdigit():
        return [f[-1]] * int(f[:-1])
    return list(f)


def effective(classes, bases, offsets=None):
    """formats of v0, v1, ... as an instance of each class sees them: a
    derived class declares len(own) names starting at v<offset> - it
    re-declares those its base has and adds the others (with an offset, a
    class in the middle of a chain does not mention the first names)"""
    eff = []
    for ci, own in enumerate(classes):
        b = bases[ci] if bases else None
        off = offsets[ci] if offsets and b is not None else 0
        cur = list(eff[b]) if b is not None else []
        for k, f in enumerate(own):
            if off + k < len(cur):
                cur[off + k] = f
            else:
                cur.append(f)
        eff.append(cur)
    return eff


def norm(v):
    return list(v) if isinstance(v, (tuple, list)) else v


@st.composite
def case_strategy(draw):
    ncls = draw(st.integers(1, 3))
    classes = [[draw(st.sampled_from(FMTS))
                for _ in range(draw(st.integers(1, 6)))]
               for _ in range(ncls)]
    bases = [None] + [draw(st.none() | st.integers(0, ci - 1))
                      for ci in range(1, ncls)]
    offsets = [0] * ncls
    for ci in range(1, ncls):
        if bases[ci] is not None and draw(st.booleans()):
            n = len(effective(classes[:ci], bases[:ci],
                              offsets[:ci])[bases[ci]])
            offsets[ci] = draw(st.integers(0, n))
    eff = effective(classes, bases, offsets)
    insts = [draw(st.integers(0, ncls - 1))
             for _ in range(draw(st.integers(1, 4)))]
    allvars = [(i, k) for i, c in enumerate(insts)
               for k in range(len(eff[c]))]

    def val(f):
        if f == "x":
            return draw(st.integers(-10**9, 10**9)) / 100000
        def one(ch):
            lo, hi = dsl.fmt_range(ch)
            return draw(st.sampled_from([lo, hi, 0, 1])
                        | st.integers(lo, hi))
        if len(f) > 1:
            return [one(ch) for ch in letters(f)]
        return one(f)

    def phase():
        out = []
        for (i, k) in allvars:
            if draw(st.integers(0, 2)):
                out.append([i, k, val(eff[insts[i]][k])])
        return out
    parent = phase()
    child = phase()
    # afterwards the controlling process writes again, often the very value
    # it had written before the child changed it
    parent2 = []
    for (i, k) in allvars:
        r = draw(st.integers(0, 3))
        earlier = [v for a, b, v in parent if (a, b) == (i, k)]
        if r == 0 and earlier:
            parent2.append([i, k, earlier[-1]])
        elif r == 1:
            parent2.append([i, k, val(eff[insts[i]][k])])
    return {"classes": classes, "bases": bases, "insts": insts,
            "offsets": offsets,
            "parent": parent, "child": child, "parent2": parent2,
            # the devices were part of a plain (slow) sync group before
            "veteran": draw(st.booleans())}


def strategy(tier):
    return case_strategy()


def enumerate_cases(tier):
    """one large group: two devices with 4200 eight-byte variables each (the
    shared map is larger than 64 kB); variables at the beginning, around the
    32 kB and 64 kB marks and at the end are written on either side"""
    n = 4200
    marks = [0, 1, 2047, 2048, 4095, 4096, 4097, n - 2, n - 1]
    parent = [[i, k, 1000 * i + k + 1] for i in (0, 1) for k in marks]
    child = [[i, k + 3, -(1000 * i + k + 7)] for i in (0, 1)
             for k in marks if k + 3 < n]
    yield {"classes": [["q"] * n], "bases": [None], "offsets": [0],
           "insts": [0, 0], "parent": parent, "child": child,
           "parent2": [[1, n - 1, 42]], "veteran": False}


SOURCE = '''
from ebpfcat.ebpfcat import Device, DeviceVar

{classes}

def child_main(sg, writes, conn):
    try:
        seen = []
        for i, dev in enumerate(sg.devices):
            for k in range(len(dev.FMTS)):
                seen.append((i, k, getattr(dev, "v%d" % k)))
        for i, k, v in writes:
            if isinstance(v, list):
                v = tuple(v)
            setattr(sg.devices[i], "v%d" % k, v)
        conn.send(("ok", seen))
    except Exception as e:
        conn.send(("error", "%s: %s" % (type(e).__name__, e)))
    conn.close()
'''


def run_case(case):
    from ebpfcat.ebpfcat import ParallelEtherCat, ProcessSyncGroup
    classes, insts = case["classes"], case["insts"]
    bases = case.get("bases") or [None] * len(classes)
    offsets = case.get("offsets") or [0] * len(classes)
    eff = effective(classes, bases, offsets)
    tmp = tempfile.mkdtemp(prefix="vf_c29_", dir="/dev/shm"
                           if os.path.isdir("/dev/shm") else None)
    modname = "vfc29_" + os.path.basename(tmp).replace("-", "_")
    src = []
    for ci, fmts in enumerate(classes):
        off = offsets[ci] if bases[ci] is not None else 0
        body = "\n".join(f"    v{off + k} = DeviceVar({f!r}, write=True)"
                         for k, f in enumerate(fmts))
        parent = "Device" if bases[ci] is None else f"Dev{bases[ci]}"
        src.append(f"class Dev{ci}({parent}):\n    FMTS = {eff[ci]!r}\n"
                   f"{body}\n")
    with open(os.path.join(tmp, modname + ".py"), "w") as fout:
        fout.write(SOURCE.format(classes="\n".join(src)))
    sys.path.insert(0, tmp)
    classes_txt = [f"{len(f)}" for f in classes]
    cls_ = [f"instances={len(insts)}", f"classes={len(classes)}"]

    short = [c if len(c) <= 12 else c[:3] + [f"... {len(c)} variables"]
             for c in classes]

    def fail(what, **kw):
        return dict(ok=False, nontrivial=True, classes=cls_,
                    what=f"{what}; device classes {short}, bases {bases}, "
                         f"instances {insts}", **kw)
    proc = None
    try:
        mod = importlib.import_module(modname)
        devs = [getattr(mod, f"Dev{c}")() for c in insts]
        ec = ParallelEtherCat("verif")
        ec.get_fmmu_addr = lambda: 0x1000
        if case.get("veteran"):
            from ebpfcat.ebpfcat import SyncGroup
            try:
                SyncGroup(ec, devs)
            except Exception as e:
                return fail(f"creating a plain group raised "
                            f"{type(e).__name__}: {e}", bucket="create")
        try:
            sg = ProcessSyncGroup(ec, devs)
        except Exception as e:
            return fail(f"creating the group raised {type(e).__name__}: {e}",
                        bucket="create")
        model = {}
        try:
            for i, dev in enumerate(devs):
                for k, f in enumerate(eff[insts[i]]):
                    model[i, k] = norm(getattr(dev, f"v{k}"))
            for i, k, v in case["parent"]:
                setattr(devs[i], f"v{k}",
                        tuple(v) if isinstance(v, list) else v)
                model[i, k] = v
        except Exception as e:
            return fail(f"accessing a device variable in the controlling "
                        f"process raised {type(e).__name__}: {e!r}",
                        facts=["parent-access-raises"], bucket="parent-access")
        parent_conn, child_conn = sg.ctx.Pipe()
        proc = sg.ctx.Process(target=mod.child_main,
                              args=(sg, case["child"], child_conn))
        proc.start()
        if not parent_conn.poll(60):
            # wall-clock bound on a loaded machine: inconclusive, no verdict
            return dict(ok=True, nontrivial=False,
                        classes=cls_ + ["inconclusive-timeout"])
        status, payload = parent_conn.recv()
        proc.join(10)
        if status != "ok":
            return fail(f"the child process failed: {payload}",
                        bucket="child")
        for i, k, got in payload:
            if norm(got) != model[i, k]:
                return fail(f"child reads {got!r} for device {i} variable "
                            f"v{k}:{eff[insts[i]][k]}, the parent had "
                            f"written {model[i, k]!r}", bucket="p->c")
        for i, k, v in case["child"]:
            model[i, k] = v
        for (i, k), want in model.items():
            got = norm(getattr(devs[i], f"v{k}"))
            if got != want:
                return fail(f"parent reads {got!r} for device {i} variable "
                            f"v{k}:{eff[insts[i]][k]}, expected {want!r} "
                            f"(child wrote {[c for c in case['child'] if c[:2] == [i, k]]})",
                            bucket="c->p")
        # ---- the controlling process writes again
        try:
            for i, k, v in case.get("parent2") or []:
                setattr(devs[i], f"v{k}",
                        tuple(v) if isinstance(v, list) else v)
                model[i, k] = v
        except Exception as e:
            return fail(f"writing a device variable again in the controlling "
                        f"process raised {type(e).__name__}: {e!r}",
                        bucket="parent-access")
        for (i, k), want in model.items():
            got = norm(getattr(devs[i], f"v{k}"))
            if got != want:
                return fail(f"parent reads {got!r} for device {i} variable "
                            f"v{k}:{eff[insts[i]][k]} after writing again, "
                            f"expected {want!r} (parent wrote "
                            f"{[c[2] for c in case['parent'] if c[:2] == [i, k]]}"
                            f", child {[c[2] for c in case['child'] if c[:2] == [i, k]]}"
                            f", parent again {[c[2] for c in case['parent2'] if c[:2] == [i, k]]})",
                            bucket="p2")
        # ---- writes the format refuses leave no trace
        import struct
        for (i, k), want in sorted(model.items())[:200]:
            f = eff[insts[i]][k]
            if f == "x":
                bad = 1e30
            else:
                n = len(struct.unpack(f, bytes(struct.calcsize(f))))
                bad = 2**70 if n == 1 else tuple([1] * (n - 1) + [2**70])
            try:
                setattr(devs[i], f"v{k}", bad)
            except (struct.error, OverflowError):
                pass
            else:
                # accepted after all (a float format): write the value back
                setattr(devs[i], f"v{k}",
                        tuple(want) if isinstance(want, list) else want)
            got = norm(getattr(devs[i], f"v{k}"))
            if got != want:
                return fail(f"parent reads {got!r} for device {i} variable "
                            f"v{k}:{f} after a write of {bad!r} was refused, "
                            f"it held {want!r}", bucket="refused-write")
    finally:
        if proc is not None and proc.is_alive():
            proc.kill()
        sys.path.remove(tmp)
        sys.modules.pop(modname, None)
        shutil.rmtree(tmp, ignore_errors=True)
    pw = {(i, k) for i, k, v in case["parent"]}
    cw = {(i, k) for i, k, v in case["child"]}
    return dict(ok=True,
                nontrivial=len(insts) >= 2 and bool(pw) and bool(cw - pw),
                key=repr((short, bases, insts, sorted(pw), sorted(cw))),
                classes=cls_, summary={"vars": len(model)})


KNOWN = {}
