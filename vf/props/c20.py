"""C20 A terminal's FMMUs are never shared by two live mappings

domain : histories of enter / leave (any order) of Terminal.map_fmmu(logical,
         write), of 2-3 map_fmmu calls entered concurrently (their
         configuration writes interleave on the bus), and of whole
         SyncGroupBase.map_fmmu contexts of two groups sharing the terminal
         (with different or with the same logical addresses),
         on terminals with 1..4 FMMUs; plus long enumerated histories in
         which one mapping (or group) stays live while 63-512 others come and
         go.
oracle : invariant after every step over the slot each live mapping was given
         and the FMMU register blocks of the simulated terminal.
"""
import asyncio
import struct
from types import SimpleNamespace

from hypothesis import strategies as st

from ebpfcat.ethercat import EtherCat, SyncManager, Terminal
from ebpfcat.ebpfcat import SyncGroupBase

from ..sim import bus as simbus
from ..sim import loop as simloop

ID = "C20"
LEVEL = "exploration"
TECHNIQUE = ("model-based stateful testing: Hypothesis-generated operation "
             "histories, invariant checked after every step")
RULE = ("Hypothesis draws histories (<= 14 steps) of enter(write?, logical) / "
        "concurrent-enter(2-3) / leave(k-th live mapping) / group-enter / "
        "group-leave on a terminal "
        "with 1..4 FMMUs; non-trivial = at some step two mappings are live at "
        "once; distinct by (fmmu count, sequence of op kinds and directions)")
ASSUMPTIONS = [
    "FMMU register layout per ETG.1000.4 (16 bytes at 0x600+16n, activate at "
    "+12); the simulated terminal only records writes",
    "a failing map_fmmu while a slot is still free is not counted as a "
    "violation (the statement only forbids sharing)",
]
EXAMPLES = {"quick": 250, "thorough": 4000}
MIN_NONTRIVIAL = {"quick": 300, "thorough": 3000}

op = st.one_of(
    st.builds(lambda w, l: {"op": "enter", "write": w, "logical": l},
              st.booleans(),
              st.sampled_from([0x1000, 0x1800, 0x400000, 0x10000, 0x10800])
              | st.integers(0, 2**31 - 1)),
    st.builds(lambda items: {"op": "penter", "items": items},
              st.lists(st.builds(
                  lambda w, l: {"write": w, "logical": l}, st.booleans(),
                  st.sampled_from([0x1000, 0x1800, 0x400000, 0x2000])),
                  min_size=2, max_size=3)),
    st.builds(lambda k: {"op": "leave", "which": k}, st.integers(0, 7)),
    st.builds(lambda g: {"op": "genter", "group": g}, st.integers(0, 1)),
    # the terminal is walked through its state machine while mappings are
    # live (SyncGroupBase.run does that right after mapping), with or without
    # an error flag to acknowledge
    st.builds(lambda e: {"op": "toop", "error": e}, st.booleans()),
    st.builds(lambda g: {"op": "gleave", "group": g}, st.integers(0, 1)),
)


def enumerate_cases(tier):
    """long histories: one mapping stays live while hundreds of others come
    and go (single mappings and whole groups), then it ends"""
    E = {"op": "enter", "write": False, "logical": 0x1000}
    X = {"op": "enter", "write": True, "logical": 0x2000}
    for n in (63, 64, 65, 255, 256, 257, 512):
        for fmmus in (2, 4):
            ops = [E] + [X, {"op": "leave", "which": 1}] * n + [
                dict(X, logical=0x3000), {"op": "leave", "which": 0},
                dict(E, logical=0x4000), {"op": "leave", "which": 0},
                {"op": "leave", "which": 0}]
            yield {"fmmus": fmmus, "groups": ["in", "out"], "ops": ops,
                   "init_real": False, "sms": 4, "same_base": False}
    G0, G1 = {"op": "genter", "group": 0}, {"op": "genter", "group": 1}
    L0, L1 = {"op": "gleave", "group": 0}, {"op": "gleave", "group": 1}
    for n in (62, 63, 64, 65, 128):
        ops = [G0] + [G1, L1] * n + [G1, L0, E, L1,
                                     {"op": "leave", "which": 0}]
        yield {"fmmus": 4, "groups": ["both", "in"], "ops": ops,
               "init_real": False, "sms": 4, "same_base": False}


def strategy(tier):
    return st.fixed_dictionaries({
        "fmmus": st.integers(1, 4),
        "groups": st.lists(st.sampled_from(["out", "in", "both"]),
                           min_size=2, max_size=2),
        "ops": st.lists(op, min_size=1, max_size=14),
        "init_real": st.booleans(),
        "sms": st.integers(2, 8),
        "same_base": st.booleans(),
    })


OUT_OFF, OUT_SZ, IN_OFF, IN_SZ = 0x1100, 6, 0x1180, 10


def block(term, slot):
    return bytes(term.mem[0x600 + 16 * slot:0x600 + 16 * slot + 16])


def expected_block(logical, write):
    return struct.pack("<IHBBHBBB3x", logical,
                       OUT_SZ if write else IN_SZ, 0, 7,
                       OUT_OFF if write else IN_OFF, 0,
                       2 if write else 1, 1)


def run_case(case):
    n = case["fmmus"]
    term = simbus.TerminalModel(station=5, fmmus=n)
    bus = simbus.Bus([term])
    result = {}

    async def go(loop):
        ec = EtherCat("verif")
        ec.send_queue = asyncio.Queue()
        server = asyncio.ensure_future(simbus.serve_datagrams(ec, bus))
        t = Terminal(ec)
        t.position = 5
        t.name = "T"
        t.fmmu_used = [None] * n
        if case.get("init_real"):
            # the FMMU pool as the real initialisation sets it up (from the
            # terminal's registers; the sync manager count differs)
            term.mem[5] = case.get("sms", 4)
            term.eeprom = bytes(0x80) + b"\xff\xff"
            try:
                await t.initialize(absolute=5)
            except Exception as e:
                return f"Terminal.initialize raised {type(e).__name__}: {e}"
            if len(t.fmmu_used) != n:
                return (f"after initialize() the FMMU pool has "
                        f"{len(t.fmmu_used)} slots, the terminal has {n} "
                        f"FMMUs ({term.mem[5]} sync managers)")
        t.pdo_out_off, t.pdo_out_sz = OUT_OFF, OUT_SZ
        t.pdo_in_off, t.pdo_in_sz = IN_OFF, IN_SZ
        live = []      # dicts: cm, slot(s), write, logical, group
        gcms = {}
        kinds = []
        maxlive = 0

        def slots_in_use():
            return [s for m in live for s in m["slots"]]

        def check_live(context):
            for m in live:
                for s, (lg, wr) in zip(m["slots"], m["maps"]):
                    if block(term, s) != expected_block(lg, wr):
                        return (f"{context}: FMMU {s} of a live mapping "
                                f"(logical {lg:#x}, write={wr}) now holds "
                                f"{block(term, s).hex()}")
                    if t.fmmu_used[s] is None:
                        return (f"{context}: slot {s} of a live mapping is "
                                f"marked free")
            return None

        for o in case["ops"]:
            before_used = list(t.fmmu_used)
            if o["op"] == "enter":
                kinds.append("E" + ("w" if o["write"] else "r"))
                cm = t.map_fmmu(o["logical"], o["write"])
                try:
                    slot = await cm.__aenter__()
                except Exception as e:
                    kinds[-1] += "!"
                    if t.fmmu_used != before_used:
                        return f"failed map_fmmu changed the slot table: " \
                               f"{before_used} -> {t.fmmu_used}"
                    w = check_live("after failed enter")
                    if w:
                        return w
                    continue
                if not (isinstance(slot, int) and 0 <= slot < n):
                    return (f"map_fmmu(write={o['write']}) on {n} FMMUs "
                            f"yielded slot {slot} with table {before_used}")
                if slot in slots_in_use():
                    return (f"map_fmmu(write={o['write']}) reused slot {slot} "
                            f"held by a live mapping; table before "
                            f"{before_used}, live slots {slots_in_use()}")
                if block(term, slot) != expected_block(o["logical"],
                                                       o["write"]):
                    return (f"slot {slot} given, but FMMU {slot} registers "
                            f"hold {block(term, slot).hex()}, expected "
                            f"{expected_block(o['logical'], o['write']).hex()}")
                live.append(dict(cm=cm, slots=[slot], group=None,
                                 maps=[(o["logical"], o["write"])]))
            elif o["op"] == "penter":
                # several mappings requested at the same time (two sync groups
                # starting together): the configuration writes interleave
                kinds.append("P" + "".join("w" if i["write"] else "r"
                                           for i in o["items"]))
                cms = [t.map_fmmu(i["logical"], i["write"])
                       for i in o["items"]]
                got = await asyncio.gather(*[cm.__aenter__() for cm in cms],
                                           return_exceptions=True)
                for cm, item, slot in zip(cms, o["items"], got):
                    if isinstance(slot, Exception):
                        kinds[-1] += "!"
                        continue
                    if not (isinstance(slot, int) and 0 <= slot < n):
                        return (f"concurrent map_fmmu yielded slot {slot}")
                    if slot in slots_in_use():
                        return (f"concurrent map_fmmu(write={item['write']})"
                                f" was given slot {slot}, which a live "
                                f"mapping holds; table before {before_used},"
                                f" live slots {slots_in_use()}")
                    live.append(dict(cm=cm, slots=[slot], group=None,
                                     maps=[(item["logical"], item["write"])]))
                w = check_live("after concurrent enters")
                if w:
                    return w
            elif o["op"] == "toop":
                kinds.append("T" + ("e" if o["error"] else ""))
                if o["error"]:
                    term.al_error = True
                    term.al_code = 0x1b
                try:
                    await t.to_operational()
                except Exception:
                    kinds[-1] += "!"
                if t.fmmu_used != before_used:
                    return (f"a state change of the terminal changed the "
                            f"FMMU slot table: {before_used} -> "
                            f"{t.fmmu_used}")
                w = check_live("after a state change")
                if w:
                    return w
            elif o["op"] == "leave":
                singles = [m for m in live if m["group"] is None]
                if not singles:
                    continue
                m = singles[o["which"] % len(singles)]
                kinds.append("L")
                await m["cm"].__aexit__(None, None, None)
                live.remove(m)
                s = m["slots"][0]
                if term.mem[0x60c + 16 * s] != 0:
                    return f"leaving did not deactivate FMMU {s}"
                if t.fmmu_used[s] is not None:
                    return f"leaving did not free slot {s}: {t.fmmu_used}"
            elif o["op"] == "genter":
                g = o["group"]
                if g in gcms:
                    continue
                kind = case["groups"][g]
                maps = {}
                wanted = []
                # two groups may use the same logical addresses (their
                # windows come from different masters)
                base = 0x10000 * (1 if case.get("same_base") else g + 1)
                if kind in ("out", "both"):
                    maps[SyncManager.OUT] = base + 0x800
                    wanted.append((base + 0x800, True))
                if kind in ("in", "both"):
                    maps[SyncManager.IN] = base
                    wanted.append((base, False))
                ns = SyncGroupBase.__new__(SyncGroupBase)
                ns.fmmu_maps = {t: maps}
                cm = ns.map_fmmu()
                kinds.append("G" + kind[0])
                try:
                    await cm.__aenter__()
                except Exception:
                    kinds[-1] += "!"
                    if t.fmmu_used != before_used:
                        return (f"failed group mapping left the slot table "
                                f"changed: {before_used} -> {t.fmmu_used}")
                    w = check_live("after failed group enter")
                    if w:
                        return w
                    continue
                # find the slots by the register contents
                slots = []
                for lg, wr in wanted:
                    cand = [s for s in range(n)
                            if block(term, s) == expected_block(lg, wr)
                            and t.fmmu_used[s] == lg]
                    cand = [s for s in cand if s not in slots
                            and s not in slots_in_use()]
                    if not cand:
                        return (f"group mapping (logical {lg:#x}, write={wr})"
                                f" succeeded but has no FMMU of its own: "
                                f"table {t.fmmu_used}, slots of the other "
                                f"live mappings {slots_in_use()}")
                    slots.append(cand[0])
                for s in slots:
                    if s in slots_in_use():
                        return (f"group mapping reused slot {s} held by a "
                                f"live mapping; table before {before_used}")
                gcms[g] = cm
                live.append(dict(cm=cm, slots=slots, group=g, maps=wanted))
            elif o["op"] == "gleave":
                g = o["group"]
                if g not in gcms:
                    continue
                kinds.append("g")
                m = [m for m in live if m["group"] == g][0]
                await gcms.pop(g).__aexit__(None, None, None)
                live.remove(m)
                for s in m["slots"]:
                    if term.mem[0x60c + 16 * s] != 0 \
                            or t.fmmu_used[s] is not None:
                        return f"leaving the group did not release slot {s}"
            w = check_live(f"after {kinds[-1] if kinds else '?'}")
            if w:
                return w
            marked = [i for i, v in enumerate(t.fmmu_used) if v is not None]
            if sorted(marked) != sorted(slots_in_use()):
                return (f"slot table {t.fmmu_used} does not match the live "
                        f"mappings' slots {sorted(slots_in_use())}")
            maxlive = max(maxlive, len(slots_in_use()))
        result["kinds"] = kinds
        result["maxlive"] = maxlive
        # leave everything so nothing outlives the case
        for m in list(live):
            try:
                await m["cm"].__aexit__(None, None, None)
            except Exception:
                pass
        server.cancel()
        return None

    try:
        what, _ = simloop.run(go, budget=200000)
    except (simloop.LoopStalled, simloop.BudgetExceeded) as e:
        what = f"history did not finish: {e!r}"
    kinds = result.get("kinds", [])
    classes = [f"fmmus={n}", f"maxlive={result.get('maxlive', '?')}"]
    if any(k.endswith("!") for k in kinds):
        classes.append("had-failure")
    return dict(ok=what is None, what=what or "",
                nontrivial=result.get("maxlive", 2) >= 2,
                key=repr((n, case["groups"], kinds)), classes=classes,
                summary={"kinds": kinds})


KNOWN = {}
