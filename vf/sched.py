"""A harness-owned scheduler for the multi-process protocols of ebpfcat.

Each "process" is a thread with its own asyncio event loop that runs the real
library code.  Every operating-system operation the protocols are made of
(os.*, tempfile, shutil, open, fcntl.lockf, the bpf object calls, attach /
detach, sleeps) goes through a proxy which first parks the thread at a yield
point; a controller lets exactly one thread continue at a time, chosen by the
generated schedule, so a run is a deterministic function of the schedule.

File-system calls are executed for real inside a scratch directory (paths
below /run and /sys/fs/bpf are translated), so rename / rmdir / O_EXCL have the
kernel's semantics.  POSIX record locks are per process and therefore useless
between threads: fcntl.lockf is modelled (byte ranges, owner = participant,
released on unlock, on close of any descriptor of the file by the owner, and on
a crash); `selftest_lockf` compares the model with the kernel's behaviour
between real processes.
"""
import asyncio
import builtins
import fcntl as real_fcntl
import os as real_os
import shutil as real_shutil
import tempfile as real_tempfile
import threading
from contextlib import contextmanager

from .runner import HarnessError


class Abort(BaseException):
    pass


class Crash(BaseException):
    pass


class Deadlock(Exception):
    pass


class Livelock(Deadlock):
    pass


class Sched:
    def __init__(self, root):
        self.root = root
        self.cv = threading.Condition()
        self.tls = threading.local()
        self.current = None
        self.waiting = {}       # pid -> op name
        self.blocked = {}       # pid -> predicate
        self.done = {}          # pid -> outcome
        self.threads = {}
        self.crashed = set()
        self.abort = False
        self.trace = []         # (pid, op)
        self.events = []        # (step, pid, what, detail)
        self.locks = {}         # inode -> list of [start, end, pid]
        self.fd_owner = {}      # fd -> (pid, inode)
        self.last = None

    # -------------------------------------------------------- thread side
    def pid(self):
        return getattr(self.tls, "pid", None)

    def yield_point(self, op, blocked=None):
        pid = self.pid()
        if pid is None:
            return
        with self.cv:
            if pid in self.crashed:
                raise Crash()
            self.waiting[pid] = op
            if blocked is not None:
                self.blocked[pid] = blocked
            self.current = None
            self.cv.notify_all()
            while self.current != pid and not self.abort:
                self.cv.wait()
            self.waiting.pop(pid, None)
            self.blocked.pop(pid, None)
            if self.abort:
                raise Abort()
            if pid in self.crashed:
                self.release_all(pid)
                raise Crash()

    def event(self, what, detail=None):
        self.events.append((len(self.trace), self.pid(), what, detail))

    def _thread(self, pid, coro_fn):
        self.tls.pid = pid
        outcome = "done"
        try:
            self.yield_point("begin")
            asyncio.run(coro_fn(pid))
        except Abort:
            outcome = "aborted"
        except Crash:
            outcome = "crashed"
        except BaseException as e:
            outcome = f"error: {type(e).__name__}: {e}"
        finally:
            with self.cv:
                self.done[pid] = outcome
                self.release_all(pid)       # process exit drops its locks
                self.waiting.pop(pid, None)
                self.blocked.pop(pid, None)
                if self.current == pid:
                    self.current = None
                self.cv.notify_all()

    # ---------------------------------------------------- controller side
    def spawn(self, pid, coro_fn):
        t = threading.Thread(target=self._thread, args=(pid, coro_fn),
                             daemon=True)
        self.threads[pid] = t
        t.start()

    def _parked(self):
        return self.current is None and all(
            p in self.waiting or p in self.done for p in self.threads)

    def run(self, policy, invariant=None, max_steps=5000):
        """policy(step, runnable, waiting, last) -> pid or ('crash', pid)"""
        try:
            for step in range(max_steps):
                with self.cv:
                    if not self.cv.wait_for(self._parked, timeout=20):
                        raise HarnessError(
                            f"participants did not park: waiting "
                            f"{self.waiting}, done {self.done}, trace tail "
                            f"{self.trace[-5:]}")
                    if invariant is not None:
                        msg = invariant()
                        if msg:
                            return msg
                    if len(self.done) == len(self.threads):
                        return None
                    runnable = [p for p in sorted(self.waiting)
                                if p not in self.blocked
                                or self.blocked[p]()]
                    if not runnable:
                        raise Deadlock(
                            f"no participant can run: waiting "
                            f"{dict(self.waiting)}")
                    pick = policy(step, runnable, dict(self.waiting),
                                  self.last)
                    if isinstance(pick, tuple):
                        pick = pick[1]
                        self.crashed.add(pick)
                        self.trace.append((pick, "CRASH"))
                    else:
                        self.trace.append((pick, self.waiting[pick]))
                    self.last = pick
                    self.current = pick
                    self.cv.notify_all()
            raise Livelock(
                f"the participants did not finish within {max_steps} "
                f"operations under a fair schedule; the last ones: "
                f"{self.trace[-6:]}")
        finally:
            with self.cv:
                self.abort = True
                self.cv.notify_all()
            for t in self.threads.values():
                t.join(10)
                if t.is_alive():
                    raise HarnessError("a participant thread did not stop")

    # ------------------------------------------------------- lockf model
    def _conflict(self, inode, start, end, pid):
        return any(p != pid and s < end and start < e
                   for s, e, p in self.locks.get(inode, []))

    def _release(self, inode, start, end, pid):
        out = []
        for s, e, p in self.locks.get(inode, []):
            if p != pid or e <= start or end <= s:
                out.append([s, e, p])
                continue
            if s < start:
                out.append([s, start, p])
            if end < e:
                out.append([end, e, p])
        self.locks[inode] = out

    def release_all(self, pid):
        for inode in self.locks:
            self.locks[inode] = [x for x in self.locks[inode] if x[2] != pid]

    def lockf(self, fd, cmd, length=0, start=0, whence=0):
        pid = self.pid()
        if pid is None:
            return real_fcntl.lockf(fd, cmd, length, start, whence)
        if whence != 0:
            raise HarnessError("lockf model: whence != 0 not modelled")
        inode = real_os.fstat(fd).st_ino
        end = start + length if length else float("inf")
        op = cmd & ~real_fcntl.LOCK_NB
        if op == real_fcntl.LOCK_UN:
            self.yield_point(f"lockf(UN,{start},{length})")
            self._release(inode, start, end, pid)
            self.event("unlock", (inode, start, length))
            return
        if op not in (real_fcntl.LOCK_EX, real_fcntl.LOCK_SH):
            raise HarnessError(f"lockf model: command {cmd}")
        if op == real_fcntl.LOCK_SH:
            raise HarnessError("lockf model: shared locks not modelled")
        self.yield_point(f"lockf(EX{'|NB' if cmd & real_fcntl.LOCK_NB else ''}"
                         f",{start},{length})")
        if self._conflict(inode, start, end, pid):
            if cmd & real_fcntl.LOCK_NB:
                raise BlockingIOError(11, "Resource temporarily unavailable")
            self.yield_point(
                "lockf(EX) blocked",
                blocked=lambda: not self._conflict(inode, start, end, pid))
            if self._conflict(inode, start, end, pid):
                raise HarnessError("lockf model: woke up with a conflict")
        self._release(inode, start, end, pid)
        self.locks.setdefault(inode, []).append([start, end, pid])
        self.event("lock", (inode, start, length))

    # ------------------------------------------------------- flock model
    # BSD locks belong to the open file description and do not interact with
    # POSIX record locks (Linux)
    def flock(self, fd, cmd):
        pid = self.pid()
        if pid is None:
            return real_fcntl.flock(fd, cmd)
        inode = real_os.fstat(fd).st_ino
        held = self.__dict__.setdefault("flocks", {}).setdefault(inode, {})
        op = cmd & ~real_fcntl.LOCK_NB
        if op == real_fcntl.LOCK_UN:
            self.yield_point("flock(UN)")
            held.pop(fd, None)
            return
        if op != real_fcntl.LOCK_EX:
            raise HarnessError("flock model: only exclusive locks")
        self.yield_point("flock(EX)")
        if any(f != fd for f in held):
            if cmd & real_fcntl.LOCK_NB:
                raise BlockingIOError(11, "Resource temporarily unavailable")
            self.yield_point("flock(EX) blocked",
                             blocked=lambda: not any(f != fd for f in held))
        held[fd] = pid


    def tr(self, path):
        if isinstance(path, str) and (path.startswith("/run")
                                      or path.startswith("/sys/fs/bpf")):
            return self.root + path
        return path


class OsProxy:
    """ebpfcat's `os`: path translation, yield points, pass-through else"""

    PATH1 = ("makedirs", "remove", "rmdir", "open", "listdir", "unlink",
             "mkdir")
    FD = ("write", "pread", "pwrite", "ftruncate", "read")

    def __init__(self, sched):
        self._s = sched

    def __getattr__(self, name):
        return getattr(real_os, name)

    def getpid(self):
        pid = self._s.pid()
        return real_os.getpid() if pid is None else 1000 + pid

    def makedirs(self, path, *a, **kw):
        self._s.yield_point(f"makedirs({path})")
        return real_os.makedirs(self._s.tr(path), *a, **kw)

    def remove(self, path):
        self._s.yield_point(f"remove({path})")
        return real_os.remove(self._s.tr(path))

    def rmdir(self, path):
        self._s.yield_point(f"rmdir({path})")
        return real_os.rmdir(self._s.tr(path))

    def rename(self, a, b):
        self._s.yield_point(f"rename(tmp,{b})")
        return real_os.rename(self._s.tr(a), self._s.tr(b))

    def open(self, path, flags, *a, **kw):
        self._s.yield_point(f"os.open({path},"
                            f"{'EXCL' if flags & real_os.O_EXCL else ''})")
        fd = real_os.open(self._s.tr(path), flags, *a, **kw)
        pid = self._s.pid()
        if pid is not None:
            self._s.fd_owner[fd] = (pid, real_os.fstat(fd).st_ino)
        return fd

    def close(self, fd):
        self._s.yield_point("close")
        own = self._s.fd_owner.pop(fd, None)
        if own is not None:
            # POSIX: closing any descriptor of a file drops the process's
            # record locks on it
            pid, inode = own
            self._s.locks[inode] = [x for x in self._s.locks.get(inode, [])
                                    if x[2] != pid]
            self._s.__dict__.get("flocks", {}).get(inode, {}).pop(fd, None)
        return real_os.close(fd)

    def write(self, fd, data):
        self._s.yield_point(f"write({len(data)})")
        return real_os.write(fd, data)

    def pread(self, fd, n, off):
        self._s.yield_point(f"pread({n},{off})")
        return real_os.pread(fd, n, off)

    def pwrite(self, fd, data, off):
        self._s.yield_point(f"pwrite({len(data)},{off})")
        return real_os.pwrite(fd, data, off)

    def ftruncate(self, fd, n):
        self._s.yield_point(f"ftruncate({n})")
        return real_os.ftruncate(fd, n)


class FcntlProxy:
    def __init__(self, sched):
        self._s = sched

    def __getattr__(self, name):
        return getattr(real_fcntl, name)

    def lockf(self, *a, **kw):
        return self._s.lockf(*a, **kw)

    def flock(self, fd, cmd):
        return self._s.flock(fd, cmd)


class TempProxy:
    def __init__(self, sched):
        self._s = sched

    def mkdtemp(self, suffix=None, prefix=None, dir=None):
        self._s.yield_point(f"mkdtemp({dir})")
        path = real_tempfile.mkdtemp(suffix, prefix, self._s.tr(dir))
        if dir is not None and path.startswith(self._s.root):
            path = path[len(self._s.root):]
        return path


class ShutilProxy:
    def __init__(self, sched):
        self._s = sched

    def rmtree(self, path, *a, **kw):
        self._s.yield_point(f"rmtree({'tmp' if 'tmp' in path else path})")
        return real_shutil.rmtree(self._s.tr(path), *a, **kw)


class LogProxy:
    def __init__(self, sched):
        self._s = sched

    def __getattr__(self, name):
        def log(msg, *args):
            self._s.event("log." + name, msg % args if args else msg)
        return log


def make_open(sched):
    def open_(path, mode="r", *a, **kw):
        sched.yield_point(f"open({path.rsplit('/', 1)[-1]},{mode})")
        return builtins.open(sched.tr(path), mode, *a, **kw)
    return open_


def make_sleep(sched):
    async def sleep(t=0):
        sched.yield_point(f"sleep({t})")
        await asyncio.sleep(0)      # the other tasks of this process run
    return sleep


@contextmanager
def scratch_root():
    root = real_tempfile.mkdtemp(prefix="vf-sched-")
    try:
        real_os.makedirs(root + "/run/lock")
        real_os.makedirs(root + "/sys/fs/bpf")
        yield root
    finally:
        real_shutil.rmtree(root, ignore_errors=True)


@contextmanager
def patched(module, **names):
    saved = {}
    missing = object()
    for k, v in names.items():
        saved[k] = module.__dict__.get(k, missing)
        setattr(module, k, v)
    try:
        yield
    finally:
        for k, v in saved.items():
            if v is missing:
                delattr(module, k)
            else:
                setattr(module, k, v)


# ---------------------------------------------------------------- selftest
def selftest_lockf():
    """the lockf model against the kernel, between two real processes"""
    import multiprocessing
    path = real_tempfile.mktemp(prefix="vf-lockf-")
    fd = real_os.open(path, real_os.O_CREAT | real_os.O_RDWR)
    real_os.write(fd, bytes(16))
    results = {}
    try:
        def child(conn, ops):
            cfd = real_os.open(path, real_os.O_RDWR)
            out = []
            for start, length in ops:
                try:
                    real_fcntl.lockf(cfd, real_fcntl.LOCK_EX
                                     | real_fcntl.LOCK_NB, length, start)
                    out.append(True)
                    real_fcntl.lockf(cfd, real_fcntl.LOCK_UN, length, start)
                except OSError:
                    out.append(False)
            conn.send(out)
        ctx = multiprocessing.get_context("fork")
        probes = [(0, 1), (1, 1), (2, 1), (0, 0), (3, 2), (5, 1)]
        held = [[(1, 1)], [(0, 0)], [(3, 1), (5, 1)], []]
        for locks in held:
            for s, l in locks:
                real_fcntl.lockf(fd, real_fcntl.LOCK_EX, l, s)
            a, b = ctx.Pipe()
            p = ctx.Process(target=child, args=(b, probes))
            p.start()
            got = a.recv()
            p.join()
            real_fcntl.lockf(fd, real_fcntl.LOCK_UN)
            model = Sched("/nonexistent")
            for s, l in locks:
                model.locks.setdefault(1, []).append(
                    [s, s + l if l else float("inf"), 0])
            want = [not model._conflict(1, s, s + l if l else float("inf"), 1)
                    for s, l in probes]
            if got != want:
                raise HarnessError(f"lockf model disagrees with the kernel: "
                                   f"held {locks}, probes {probes}, kernel "
                                   f"{got}, model {want}")
            results[str(locks)] = got
    finally:
        real_os.close(fd)
        real_os.remove(path)
    return results
