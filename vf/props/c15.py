"""C15 Mailbox exchanges with a terminal are serialised and counted

in process   : 2-3 asyncio tasks doing sdo_read / sdo_write on one shared
               Terminal object (and on two terminals, which must be
               independent) over a bus with generated latencies; the terminal
               model logs every mailbox message with its header.
               One family has a user list the object dictionary (SDO
               information service, answers of up to ~750 fragments) while
               another reads and writes: a request that arrives while answers
               to the previous one are unread counts as interleaving.
across processes: see vf/sched (harness-scheduled participants sharing the
               lock file through ParallelMailboxLock), part "x" of a case.
oracle       : no initiate request of one user arrives while another user's
               transfer is in progress; every user gets its own data; the
               counters of successive messages to one terminal follow
               1 -> 2 -> ... -> 7 -> 1 (the very first may be 0) without repeat
               or gap.
"""
import asyncio
import os
import struct

from hypothesis import strategies as st

from ebpfcat.ethercat import CoECmd, EtherCat, ODCmd, Terminal
from ebpfcat.lock import MailboxLock

from ..sim import bus as simbus
from ..sim import loop as simloop
from ..sim import sdo as simsdo
from . import c16

ID = "C15"
LEVEL = "exploration"
TECHNIQUE = ("schedule exploration: Hypothesis-generated workloads and bus "
             "latencies interleave concurrent mailbox users (asyncio tasks; "
             "harness-scheduled lock-file participants); invariant over the "
             "mailbox history of the simulated terminal")
RULE = ("Hypothesis draws (1-2 terminals, 2-3 users with 1-4 SDO operations "
        "each of varying length, per-datagram latencies, response delays, "
        "lock kind); non-trivial = at least two users of the same terminal "
        "had exchanges and the bus had a latency > 0 (so the tasks really "
        "interleave); distinct by (users per terminal, operation kinds, "
        "latency pattern)")
ASSUMPTIONS = [
    "users of one terminal in a process share the Terminal object (and so "
    "its lock), as the library intends",
    "users are told apart by the object index of their initiate requests",
    "the cross-process part runs processes as harness-scheduled threads "
    "(vf/sched.py): interleaving at system-call granularity, POSIX record "
    "locks modelled per process and compared with the kernel in the selftest",
    "in the cross-process part an exchange is: take the lock, draw 1-3 "
    "counters, wait (other tasks of the process may run), leave",
]
EXAMPLES = {"quick": 60, "thorough": 5000}
MIN_NONTRIVIAL = {"quick": 200, "thorough": 3000}


@st.composite
def xproc_strategy(draw):
    n = draw(st.sampled_from([2, 2, 3]))
    parts = []
    for i in range(n):
        ntasks = draw(st.sampled_from([1, 1, 2]))
        tasks = []
        for _ in range(ntasks):
            tasks.append(draw(st.lists(st.fixed_dictionaries({
                "term": st.integers(0, 1),
                "msgs": st.integers(1, 3),
                # the transfer fails (raises) inside the lock after its mails
                "fail": st.sampled_from([False, False, False, True]),
            }), min_size=1, max_size=4)))
        # the lock objects reached this process pickled (as a Terminal handed
        # to a spawned process does)
        parts.append({"tasks": tasks, "pickled": draw(st.booleans())})
    chunks = draw(st.lists(
        st.tuples(st.integers(0, n - 1),
                  st.sampled_from([1, 1, 2, 3, 5, 8, 13])),
        min_size=0, max_size=40))
    # terminal numbers: inside the range of the lock file, its first, its last
    addresses = draw(st.sampled_from([[1003, 1004], [1003, 1004], [1000, 1015],
                                      [1015, 1000], [1015, 1014]]))
    case = {"kind": "xproc", "participants": parts, "addresses": addresses,
            "chunks": [list(c) for c in chunks]}
    if draw(st.integers(0, 3)) == 0:
        # the default range of the library, terminals far apart in it
        case["range_end"] = 30000
        case["addresses"] = draw(st.sampled_from(
            [[1000, 5096], [1003, 9195], [29999, 1000], [1256, 1000],
             [1000, 17384]]))
    return case


def enumerate_cases(tier):
    """two processes, one exchange of two messages each on the same terminal,
    every placement of one preemption - this covers the window between the
    creation and the initialisation of the lock file"""
    one = {"tasks": [[{"term": 0, "msgs": 2}]]}
    for addresses in ([1003, 1004], [1015, 1000], [1000, 1015]):
        for first in (0, 1):
            for s in range(0, 14):
                for t in range(1, 14):
                    yield {"kind": "xproc", "participants": [one, one],
                           "addresses": addresses,
                           "chunks": [[first, s], [1 - first, t],
                                      [first, 100], [1 - first, 100]]}
    # a process with exchanges on two terminals in flight at once (two tasks)
    # and a second process using one of these terminals
    two = {"tasks": [[{"term": 0, "msgs": 1}], [{"term": 1, "msgs": 3}]]}
    for other in (0, 1):
        b = {"tasks": [[{"term": other, "msgs": 2}]]}
        for s in range(3, 22):
            for t in range(1, 12):
                yield {"kind": "xproc", "participants": [two, b],
                       "chunks": [[0, s], [1, t], [0, 100], [1, 100]]}


    # in process: one user lists the object dictionary of a terminal (an
    # answer of up to 600 fragments) while another reads and writes objects
    for od, mbx in ((0, [24, 24]), (5, [24, 24]), (40, [32, 40]),
                    (700, [24, 24]), (1538, [24, 24]), (1600, [24, 24]),
                    (3300, [24, 24]), (3300, [64, 32]), (9000, [128, 128])):
        for sleeps in (0, 2):
            yield {"terminals": 1, "od": od, "mbx": mbx,
                   "tasks": [
                       {"term": 0, "sleeps": 0,
                        "ops": [{"op": "odlist", "len": 0, "sub": 0}]},
                       {"term": 0, "sleeps": sleeps,
                        "ops": [{"op": "read", "len": 5, "sub": 1},
                                {"op": "write", "len": 30, "sub": 2}]}],
                   "latency": [1, 0, 2], "delays": [0, 1]}


def strategy(tier):
    return st.one_of(inproc_strategy(), inproc_strategy(), xproc_strategy())


def inproc_strategy():
    op = st.fixed_dictionaries({
        "op": st.sampled_from(["read", "write"]),
        "len": st.one_of(st.integers(0, 6), st.integers(0, 120),
                         st.sampled_from([8, 9, 23, 24, 25, 50])),
        "sub": st.integers(0, 5),
    })
    task = st.fixed_dictionaries({
        "term": st.integers(0, 1),
        "ops": st.lists(op, min_size=1, max_size=4),
        "sleeps": st.integers(0, 3),
    })
    return st.fixed_dictionaries({
        "terminals": st.sampled_from([1, 1, 2]),
        "tasks": st.lists(task, min_size=2, max_size=3),
        "latency": st.lists(st.integers(0, 3), min_size=1, max_size=7),
        "delays": st.lists(st.integers(0, 3), min_size=1, max_size=4),
        "mbx": st.sampled_from([[24, 24], [32, 40], [64, 64], [128, 128]]),
    })


class WatchingServer(simsdo.SdoServer):
    """SDO server that notes which user owns the transfer in progress"""

    def __init__(self, *a, **k):
        super().__init__(*a, **k)
        self.owner = None
        self.interleaved = []
        self.users_seen = []

    def __call__(self, term, msg):
        # every exchange of the library reads all mail its request causes
        # before it ends: a request that arrives while answers are still
        # queued was written inside somebody else's exchange
        if term.mbx_in_queue:
            self.interleaved.append(
                (self.owner, "another", f"a request arriving while "
                 f"{len(term.mbx_in_queue)} answers to the previous request "
                 f"were still unread"))
        if len(msg) >= 9 and msg[5] & 0xf == 3 and msg[7] >> 4 == 8:
            self.owner = "od-list reader"
        return super().__call__(term, msg)

    def sdo(self, b):
        cmd = b[0]
        ccs = cmd >> 5
        if ccs in (1, 2) and len(b) >= 4:
            index, = struct.unpack_from("<H", b, 1)
            user = (index - 0x2000) >> 8
            if self.upload is not None \
                    and self.owner is not None and self.owner != user:
                self.interleaved.append((self.owner, user, hex(index)))
            self.owner = user
            self.users_seen.append(user)
        return super().sdo(b)


class TransferFailed(Exception):
    pass


def run_xproc(case):
    """participants = processes sharing /run/ebpf/<if> through LockFile and
    ParallelMailboxLock, every os / fcntl operation a scheduling point"""
    import ebpfcat.lock as lockmod
    from .. import sched as vsched
    from ..runner import HarnessError

    n = len(case["participants"])
    log = []          # (terminal, pid, task, what, counter)
    errors = {}
    with vsched.scratch_root() as root:
        s = vsched.Sched(root)
        osp = vsched.OsProxy(s)

        async def participant(pid):
            script = case["participants"][pid]
            try:
                lf = lockmod.LockFile("/run/ebpf/vf0", 1000,
                                      case.get("range_end", 1016))
            except Exception as e:
                errors[pid] = f"LockFile: {type(e).__name__}: {e}"
                return
            locks = {}

            async def user(ti, exchanges):
                for ex in exchanges:
                    no = case.get("addresses", [1003, 1004])[ex["term"]]
                    if no not in locks:
                        # one lock object per terminal and process, like the
                        # Terminal object holds it
                        locks[no] = lockmod.ParallelMailboxLock(lf, no)
                        if script.get("pickled"):
                            import pickle
                            try:
                                locks[no] = pickle.loads(
                                    pickle.dumps(locks[no]))
                            except Exception as e:
                                errors[pid] = (f"unpickling the lock of "
                                               f"terminal {no}: "
                                               f"{type(e).__name__}: {e}")
                                return
                            if (locks[no].no, locks[no].lock_file.filename) \
                                    != (no - 1000, lf.filename):
                                errors[pid] = (
                                    f"the unpickled lock of terminal {no} "
                                    f"uses byte {locks[no].no} of "
                                    f"{locks[no].lock_file.filename}")
                                return
                            locks[no].lock_file = lf
                    lock = locks[no]
                    try:
                        async with lock:
                            log.append((no, pid, ti, "enter", None))
                            for _ in range(ex["msgs"]):
                                c = lock.next_counter()
                                log.append((no, pid, ti, "msg", c))
                                s.yield_point("exchange")
                                # waiting for the response: other tasks of
                                # this process run
                                await asyncio.sleep(0)
                            log.append((no, pid, ti, "exit", None))
                            if ex.get("fail"):
                                raise TransferFailed()
                    except TransferFailed:
                        pass
                    except Exception as e:
                        errors[pid] = (f"exchange: {type(e).__name__}: {e}")
                        return
            await asyncio.gather(*[user(ti, exs) for ti, exs
                                   in enumerate(script["tasks"])])

        chunks = [list(c) for c in case["chunks"]]

        def policy(step, runnable, waiting, last):
            while chunks:
                p, k = chunks[0]
                if k <= 0 or p not in runnable:
                    chunks.pop(0)
                    continue
                chunks[0][1] -= 1
                return p
            if last in runnable and not waiting[last].startswith("sleep("):
                return last
            # somebody who sleeps (polls) lets the others run
            later = [p for p in runnable if last is None or p > last]
            return (later or runnable)[0]

        result = None
        with vsched.patched(lockmod, os=osp, fcntl=vsched.FcntlProxy(s),
                            sleep=vsched.make_sleep(s),
                            logging=vsched.LogProxy(s)):
            for pid in range(n):
                s.spawn(pid, participant)
            try:
                result = s.run(policy, max_steps=20000)
            except vsched.Deadlock as e:
                result = f"no progress: {e}"
            finally:
                for fd in list(s.fd_owner):
                    try:
                        os.close(fd)
                    except OSError:
                        pass
    for pid, out in s.done.items():
        if out.startswith("error"):
            raise HarnessError(f"participant {pid}: {out}")
    ops = [f"{p}:{op}" for p, op in s.trace]
    multi_task = any(len(p["tasks"]) > 1 for p in case["participants"])
    classes = ["cross-process", f"processes={n}"] + (
        ["two-tasks-in-a-process"] if multi_task else []) + (
        ["first-or-last-terminal-of-the-range"]
        if set(case.get("addresses", [])) & {1000, 1015} else []) + (
        ["full-range-lock-file"] if case.get("range_end") else [])

    def fail(what, facts=()):
        return dict(ok=False, nontrivial=True, classes=classes,
                    facts=list(facts), bucket=("xproc", what[:40]),
                    what=f"cross-process: {what}; mailbox log "
                         f"{[(a, b, c, d[0], e) for a, b, c, d, e in log[-14:]]}"
                         f"; operations {ops[-30:]}")
    if result:
        return fail(result)
    if errors:
        pid, msg = sorted(errors.items())[0]
        return fail(f"process {pid} failed: {msg}")
    users = {}
    for no in sorted({e[0] for e in log}):
        inside = None
        prev = None
        for _, pid, ti, what, c in [e for e in log if e[0] == no]:
            users.setdefault(no, set()).add((pid, ti))
            same_proc = inside is not None and inside[0] == pid
            if what == "enter":
                if inside is not None:
                    return fail(
                        f"user {(pid, ti)} started an exchange with terminal "
                        f"{no} while user {inside} was inside its own",
                        ["same-process"] if same_proc else [])
                inside = (pid, ti)
            elif what == "exit":
                inside = None
            else:
                if prev is None:
                    ok = c in range(0, 8)
                else:
                    ok = c == prev % 7 + 1
                if not ok:
                    return fail(
                        f"terminal {no}: message counter {c} follows {prev}",
                        ["same-process"] if same_proc else [])
                prev = c
    shared = any(len({p for p, t in u}) >= 2 for u in users.values())
    return dict(ok=True, nontrivial=shared,
                key=repr(("x", ops)), classes=classes,
                summary={"operations": len(ops), "trace": ops[:50],
                         "messages": len([e for e in log if e[3] == "msg"])})


def run_case(case):
    if case.get("kind") == "xproc":
        return run_xproc(case)
    nterm = case["terminals"]
    out_sz, in_sz = case["mbx"]
    terms = []
    servers = []
    for k in range(nterm):
        tm = simbus.TerminalModel(station=50 + k)
        objects = {}
        for ti, task in enumerate(case["tasks"]):
            if task["term"] % nterm != k:
                continue
            for oi, op in enumerate(task["ops"]):
                if op["op"] == "read":
                    objects[0x2000 + (ti << 8) + oi, op["sub"]] = \
                        c16.value(op["len"], 16 * ti + oi)
        srv = WatchingServer(objects, delays=case["delays"])
        srv.od_indexes = [0x1000 + 3 * i + (i & 1)
                          for i in range(case.get("od", 0))]
        simsdo.attach(tm, srv, (0x1000, out_sz), (0x1800, in_sz))
        terms.append(tm)
        servers.append(srv)
    bus = simbus.Bus(terms)
    lat = list(case["latency"])
    state = {"i": 0}

    def latency():
        v = lat[state["i"] % len(lat)]
        state["i"] += 1
        return v
    outcome = {}

    async def go(loop):
        ec = EtherCat("verif")
        ec.send_queue = asyncio.Queue()
        server = asyncio.ensure_future(
            simbus.serve_datagrams(ec, bus, latency))
        tobjs = []
        for k in range(nterm):
            t = Terminal(ec)
            t.position = 50 + k
            t.name = f"T{k}"
            t.mbx_lock = ec.get_mbx_lock(t.position)
            t.mbx_out_off, t.mbx_out_sz = 0x1000, out_sz
            t.mbx_in_off, t.mbx_in_sz = 0x1800, in_sz
            tobjs.append(t)

        async def user(ti, task):
            t = tobjs[task["term"] % nterm]
            for _ in range(task["sleeps"]):
                await asyncio.sleep(0)
            res = []
            for oi, op in enumerate(task["ops"]):
                index = 0x2000 + (ti << 8) + oi
                if op["op"] == "odlist":
                    res.append(bytes(await t.coe_request(
                        CoECmd.SDOINFO, ODCmd.LIST_REQ, "H", 1)))
                elif op["op"] == "read":
                    res.append(bytes(await t.sdo_read(index, op["sub"])))
                else:
                    await t.sdo_write(c16.value(op["len"], 16 * ti + oi),
                                      index, op["sub"])
                    res.append(None)
            return res

        tasks = [asyncio.ensure_future(user(i, t))
                 for i, t in enumerate(case["tasks"])]
        done = await asyncio.wait_for(
            asyncio.gather(*tasks, return_exceptions=True), 60)
        for i, r in enumerate(done):
            outcome[i] = r
        server.cancel()

    try:
        simloop.run(go, budget=600000)
    except (simloop.LoopStalled, simloop.BudgetExceeded,
            asyncio.TimeoutError) as e:
        outcome["stalled"] = repr(e)

    per_term = [sum(1 for t in case["tasks"] if t["term"] % nterm == k)
                for k in range(nterm)]
    classes = [f"terminals={nterm}", f"users={sorted(per_term)}"]

    def fail(what):
        return dict(ok=False, nontrivial=True, classes=classes,
                    what=f"{what}; tasks {[(t['term'] % nterm, [(o['op'], o['len']) for o in t['ops']]) for t in case['tasks']]}"
                         f" latency {case['latency']} delays {case['delays']}"
                         f" mailbox {case['mbx']}")

    if "stalled" in outcome:
        return fail(f"the users did not finish: {outcome['stalled']}")
    for k, srv in enumerate(servers):
        if srv.interleaved:
            return fail(f"terminal {k}: user {srv.interleaved[0][1]} started "
                        f"an exchange ({srv.interleaved[0][2]}) while user "
                        f"{srv.interleaved[0][0]}'s transfer was in progress")
        if srv.errors:
            return fail(f"terminal {k} saw protocol errors {srv.errors[:2]}")
        if terms[k].denied:
            return fail(f"terminal {k} denied {terms[k].denied} mailbox "
                        f"accesses (written while full / out of order)")
        # a request may only be written after the response to the previous
        # one has been read (unrelated mail does not count as a response)
        pending = False
        for m in terms[k].mbx_log:
            if m[0] == "w":
                if pending:
                    return fail(f"terminal {k}: a request was written before "
                                f"the response to the previous request had "
                                f"been read")
                pending = True
            elif m[1][5] & 0xf == 3:
                pending = False
        counters = [(m[1][5] >> 4) & 7 for m in terms[k].mbx_log
                    if m[0] == "w"]
        for a, b in zip(counters, counters[1:]):
            if b != a % 7 + 1:
                return fail(f"terminal {k}: mailbox counters {counters} "
                            f"do not follow the 1..7 cycle")
        if counters and counters[0] not in (0, 1):
            return fail(f"terminal {k}: first counter {counters[0]}")
        if getattr(terms[k], "mbx_repeats", 0):
            return fail(f"terminal {k} ignored a repeated counter")
    for ti, task in enumerate(case["tasks"]):
        r = outcome.get(ti)
        if isinstance(r, BaseException):
            return fail(f"user {ti} failed with {type(r).__name__}: {r}")
        k = task["term"] % nterm
        for oi, op in enumerate(task["ops"]):
            want = c16.value(op["len"], 16 * ti + oi)
            index = 0x2000 + (ti << 8) + oi
            if op["op"] == "odlist":
                want = b"".join(struct.pack("<H", i)
                                for i in servers[k].od_indexes)
                if r[oi] != want:
                    return fail(f"user {ti} got an object list of "
                                f"{len(r[oi]) // 2} entries from a terminal "
                                f"with {len(want) // 2} objects"
                                if len(r[oi]) != len(want) else
                                f"user {ti} got a wrong object list")
            elif op["op"] == "read":
                if r[oi] != want:
                    return fail(f"user {ti} read {r[oi].hex()[:40]} for "
                                f"object {index:#x}, which holds "
                                f"{want.hex()[:40]}")
            elif servers[k].objects.get((index, op["sub"])) != want:
                return fail(f"user {ti}'s write to {index:#x} did not "
                            f"arrive intact")
    shared = max(per_term) >= 2
    frags = [sum(1 for e in srv.log if e == ("info", 1))
             and -(-(2 * case.get("od", 0) + 2) // (in_sz - 12))
             for srv in servers if ("info", 1) in srv.log]
    return dict(ok=True,
                nontrivial=shared and any(case["latency"]),
                key=repr((per_term, [[o["op"] for o in t["ops"]]
                                     for t in case["tasks"]],
                          case["latency"], case.get("od"))),
                classes=classes + (["interleaving-possible"]
                                   if any(case["latency"]) else [])
                + ([f"od-list-fragments>{256 if max(frags) > 256 else 0}"]
                   if frags else []),
                summary={"messages": [len(t.mbx_log) for t in terms],
                         "users": per_term})


def selftest():
    from .. import sched as vsched
    vsched.selftest_lockf()


KNOWN = {}
