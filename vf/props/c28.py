"""C28 Serial channels transfer bytes exactly once, in order

machine : an EL6002 channel model (initialisation after 0-k cycles, transmit
          accepted after 0-k cycles, receive requests whose acknowledgement
          the master gives, both directions active together) driven cycle by
          cycle around the real Serial.update() of a slow sync group on the
          real EL6002 terminal class; the application side writes chunks of
          1-22 bytes (sometimes several before the next cycle) to the channel's
          pipe and drains its receive pipe.
oracle  : the concatenation of the chunks the model accepted equals what the
          application wrote - exactly once, in order, one request toggle per
          chunk, data and request unchanged until accepted; the bytes the
          application reads equal the chunks the model announced, each
          acknowledged by exactly one toggle.
"""
import os
import struct

from hypothesis import strategies as st

from ebpfcat.ebpfcat import SimpleEtherCat, SyncGroup, SyncManager
from ebpfcat.serial import Serial
from ebpfcat.terminals import EL6002

ID = "C28"
LEVEL = "exploration"
TECHNIQUE = ("model-based stateful testing: Hypothesis-generated handshake "
             "timings and payloads, the real Serial.update() stepped against "
             "an EL6002 channel model; invariants over the history")
RULE = ("Hypothesis draws (channel 1 or 2, per cycle: optional application "
        "write(s), optional terminal chunk, accept delays in both directions, "
        "init delay, stale toggle bits / data at start-up); non-trivial = both directions transferred data and at "
        "least one accept was delayed by >= 1 cycle; distinct by (cycle "
        "event pattern, delays)")
ASSUMPTIONS = [
    "EL6002 process image in 22 byte mode (status/control byte, length byte, "
    "22 data bytes) as declared by ebpfcat.terminals.EL6002",
    "the model accepts traffic as soon as the master considers itself "
    "connected and mirrors the transmit toggle when it has taken the data",
    "the application's writes may be merged by the pipe: the byte stream, not "
    "the chunk boundaries of the application, must be preserved; every "
    "presented chunk is 1..22 bytes",
]
EXAMPLES = {"quick": 150, "thorough": 10000}
MIN_NONTRIVIAL = {"quick": 300, "thorough": 5000}


def strategy(tier):
    chunk = st.binary(min_size=1, max_size=22)
    # the application writes a byte stream: single writes may be longer than
    # the 22 bytes a channel carries at a time
    appchunk = st.binary(min_size=1, max_size=22) | st.binary(min_size=1,
                                                              max_size=60)
    cycle = st.fixed_dictionaries({
        "app": st.lists(appchunk, max_size=2),
        "term": st.none() | st.none() | chunk,
        "tx_delay": st.integers(0, 3),
        "ack_check": st.booleans(),
    })
    return st.fixed_dictionaries({
        "channel": st.sampled_from([1, 2]),
        "init_delay": st.integers(0, 3),
        "cycles": st.lists(cycle, min_size=3, max_size=40),
        "noise": st.integers(0, 255),
        "stale": st.sampled_from([0, 0, 1, 2, 3]) | st.integers(0, 255),
    })


def run_case(case):
    ec = SimpleEtherCat("verif")
    term = EL6002(ec)
    term.position = 1005
    term.pdos = {}
    term.use_fmmu = False
    term.pdo_in_sz = term.pdo_out_sz = 48
    term.pdo_in_off, term.pdo_out_off = 0x1100, 0x1400
    chan = term.channel1 if case["channel"] == 1 else term.channel2
    dev = Serial(chan)
    # the terminal's other channel is in use as well (it never gets its
    # initialisation accepted here, so it only keeps asking for it)
    dev2 = Serial(term.channel2 if case["channel"] == 1 else term.channel1)
    fds = [dev.in_read, dev.in_write, dev.out_read, dev.out_write,
           dev2.in_read, dev2.in_write, dev2.out_read, dev2.out_write]
    try:
        return _run(case, ec, term, dev, dev2)
    finally:
        for fd in fds:
            try:
                os.close(fd)
            except OSError:
                pass


def _run(case, ec, term, dev, dev2):
    sg = SyncGroup(ec, [dev, dev2])
    sg.allocate()
    data = bytearray([case["noise"]]) * max(46, sg.packet.size)
    sg.current_data = data
    off = 24 * (case["channel"] - 1)
    ipos = sg.pdo_assign[term][SyncManager.IN] + off
    opos = sg.pdo_assign[term][SyncManager.OUT] + off
    # the other channel's bytes must never change
    other_in = sg.pdo_assign[term][SyncManager.IN] + 24 - off
    other_out = sg.pdo_assign[term][SyncManager.OUT] + 24 - off
    # the toggle bits may be in any state when the master (re)starts, and the
    # data field may hold an old chunk
    stale = case.get("stale", 0)
    data[ipos] = stale & 3
    data[opos] = 0
    data[ipos + 1:ipos + 24] = struct.pack(
        "<23p", bytes([stale]) * (stale % 23)) if stale else bytes(23)
    data[other_in] = 0      # the other channel never accepts its init
    data[other_out] = 0
    snapshot_other = bytes(data[other_out:other_out + 24])

    app_written = bytearray()
    accepted = bytearray()        # what the terminal took from the master
    announced = bytearray()       # what the terminal sent to the master
    app_read = bytearray()
    events = []
    # model state
    init_wait = case["init_delay"]
    last_txreq = 0
    tx_pending = None             # [chunk, cycles left]
    rx_outstanding = False
    rx_toggles_expected = 0
    last_rxacc = 0
    rx_acc_toggles = 0
    tx_toggles = 0
    delayed = False
    connected_seen = False

    def fail(what):
        return dict(ok=False, nontrivial=True, classes=[],
                    what=f"{what}; channel {case['channel']}, init delay "
                         f"{case['init_delay']}, events {events[-14:]}")

    # idle cycles at the end, enough to drain what the application wrote
    # (22 bytes per accepted chunk, a chunk every other cycle)
    backlog = sum(len(c) for cyc in case["cycles"] for c in cyc["app"] or [])
    cycles = list(case["cycles"]) + [
        {"app": [], "term": None, "tx_delay": 0, "ack_check": True}] \
        * (8 + 3 * (backlog // 22 + 2))
    for n, cyc in enumerate(cycles):
        # ---- application writes
        for chunk in cyc["app"] or []:
            if dev.connected:
                try:
                    os.write(dev.out_write, chunk)
                except BlockingIOError:
                    continue        # pipe full: the application would wait
                app_written += chunk
                events.append(f"app>{len(chunk)}")
        # ---- terminal side, before the master's update
        ctrl = data[opos]
        if not dev.connected:
            if ctrl & 4:       # init request seen
                if init_wait <= 0:
                    data[ipos] |= 4
                else:
                    init_wait -= 1
        else:
            data[ipos] &= ~4 & 0xff
        if tx_pending is not None:
            # data and request must stay put until accepted
            cur = bytes(data[opos + 1:opos + 24])
            if cur != tx_pending[2] or (ctrl & 1) != tx_pending[3]:
                return fail("the transmit data or request changed before "
                            "the terminal accepted it")
            if tx_pending[1] <= 0:
                accepted += tx_pending[0]
                data[ipos] ^= 1          # mirror the toggle: accepted
                events.append(f"acc{len(tx_pending[0])}")
                tx_pending = None
            else:
                tx_pending[1] -= 1
                delayed = True
        if dev.connected and not rx_outstanding and cyc["term"]:
            chunk = cyc["term"]
            data[ipos + 1:ipos + 24] = struct.pack("<23p", chunk)
            data[ipos] ^= 2              # receive request toggle
            rx_outstanding = True
            announced += chunk
            events.append(f"term>{len(chunk)}")
        # ---- the master's cycle
        try:
            dev.update()
            dev2.update()
        except Exception as e:
            return fail(f"Serial.update raised {type(e).__name__}: {e}")
        ctrl = data[opos]
        now_other = bytes(data[other_out:other_out + 24])
        if now_other[1:] != snapshot_other[1:] \
                or now_other[0] not in (snapshot_other[0], 4):
            return fail("the other channel's output bytes changed (beyond "
                        "its own initialisation request)")
        if dev2.connected:
            return fail("the other channel considers itself connected "
                        "although its initialisation was never accepted")
        if dev.connected and not connected_seen:
            connected_seen = True
            last_txreq = ctrl & 1
            last_rxacc = (ctrl >> 1) & 1
            events.append("connected")
            continue
        if not dev.connected:
            continue
        # transmit request toggled -> a new chunk is presented
        if (ctrl & 1) != last_txreq:
            last_txreq = ctrl & 1
            tx_toggles += 1
            if tx_pending is not None:
                return fail("a second transmit request was raised before "
                            "the first chunk was accepted")
            raw = bytes(data[opos + 1:opos + 24])
            ln = raw[0]
            if not 1 <= ln <= 22:
                return fail(f"presented chunk has length byte {ln}")
            tx_pending = [raw[1:1 + ln], cyc["tx_delay"], raw, ctrl & 1]
            events.append(f"req{ln}")
        # receive accepted toggled -> the master took the chunk
        if ((ctrl >> 1) & 1) != last_rxacc:
            last_rxacc = (ctrl >> 1) & 1
            rx_acc_toggles += 1
            if not rx_outstanding:
                return fail("receive-accepted toggled without a pending "
                            "receive request")
            rx_outstanding = False
            events.append("rxack")
        # ---- application drains its pipe
        try:
            got = os.read(dev.in_read, 4096)
            app_read += got
        except BlockingIOError:
            pass
    if not connected_seen:
        return fail("the channel never connected although the terminal "
                    "accepted the initialisation")
    if tx_pending is not None:
        accepted += tx_pending[0]
    if not app_read.startswith(b"A"):
        return fail(f"the application did not get the connect marker: "
                    f"{bytes(app_read[:4])!r}")
    if bytes(accepted) != bytes(app_written):
        return fail(f"terminal accepted {bytes(accepted)!r}, the "
                    f"application wrote {bytes(app_written)!r}")
    if rx_outstanding:
        return fail("a chunk announced by the terminal was never "
                    "acknowledged")
    if bytes(app_read[1:]) != bytes(announced):
        return fail(f"application read {bytes(app_read[1:])!r}, the terminal "
                    f"announced {bytes(announced)!r}")
    both = bool(accepted) and bool(announced)
    pattern = "".join(e[0] for e in events)
    return dict(ok=True, nontrivial=both and delayed,
                key=repr((case["channel"], pattern, case["init_delay"])),
                classes=[f"channel={case['channel']}",
                         "both-directions" if both else "one-direction",
                         "delayed" if delayed else "immediate"],
                summary={"events": events[:30], "tx_toggles": tx_toggles,
                         "rx_acks": rx_acc_toggles})


KNOWN = {}
