"""Program builder: turns a generated program (plain data) into a real
ebpfcat XDP program, runs it in the independent interpreter and in the kernel.

A program is
  decls : [{"name", "kind": local|map|pkt, "fmt"}]          variables
  regs  : [{"no", "view": r|sr|w|sw|x}]                     register operands
  body  : callable(e, env) issuing DSL statements (built by the property
          module from its own statement data)
Inputs reach registers and locals through a prologue of *raw* instructions
(EBPF.append) copying from the packet's input area; packet variables live in
the packet; map variables are written into the mmap'ed map.  An epilogue of raw
instructions copies all registers and locals to the packet's output area.
"""
import struct

import ebpfcat.bpf as ebpf_bpf
from ebpfcat.arraymap import ArrayMap
from ebpfcat.ebpf import AssembleError, LocalVar, Opcode
from ebpfcat.xdp import XDP, PacketVar

from ..runner import HarnessError
from ..vm import interp, kernel

SIZES = {"B": 1, "H": 2, "I": 4, "Q": 8, "b": 1, "h": 2, "i": 4, "q": 8,
         "x": 8}
SIZES.update({p + f: n for p in "<>!" for f, n in list(SIZES.items())
              if f != "x"})          # formats with an explicit byte order
SIZE_OP = {1: Opcode.B, 2: Opcode.H, 4: Opcode.W, 8: Opcode.DW}


def encode_raw(value, fmt):
    """the bytes struct.pack would store for `value` (wrapped into the
    format's range), as the little-endian integer a raw load shows"""
    n = SIZES[fmt]
    b = (value & ((1 << (8 * n)) - 1)).to_bytes(n, "little")
    if fmt[0] in ">!":
        b = b[::-1]
    return int.from_bytes(b, "little")

def fsize(fmt):
    """size in bytes of a variable format (bit fields live in one byte)"""
    if isinstance(fmt, (list, tuple)):
        return 1
    return SIZES[fmt[-1]]


def pyfmt(fmt):
    return tuple(fmt) if isinstance(fmt, (list, tuple)) else fmt


ETH = 16                 # first usable packet offset (after a fake header)
REG_CANDIDATES = [2, 3, 4, 5, 6, 8, 0]


def fmt_range(fmt):
    n = SIZES[fmt] * 8
    if fmt.islower():
        return -(1 << (n - 1)), (1 << (n - 1)) - 1
    return 0, (1 << n) - 1


def decode_value(raw, fmt):
    """value of the raw little-endian integer `raw` under struct format"""
    n = SIZES[fmt] * 8
    raw &= (1 << n) - 1
    if fmt.islower() and raw >> (n - 1):
        raw -= 1 << n
    return raw


def view_fmt(view):
    return {"r": "Q", "sr": "q", "w": "I", "sw": "i", "x": "x"}[view]


class Layout:
    """where everything lives in the packet"""

    def __init__(self, decls, regs, extra_out=0):
        pos = ETH
        self.reg_in = {}
        self.var_in = {}
        self.pkt_var = {}
        for r in regs:
            self.reg_in[r["no"]] = pos
            pos += 8
        for d in decls:
            if d["kind"] == "local":
                self.var_in[d["name"]] = pos
                pos += 8
        for d in decls:
            if d["kind"] == "pkt":
                size = fsize(d["fmt"])
                pos = (pos + size - 1) // size * size
                self.pkt_var[d["name"]] = pos
                pos += size
        pos = (pos + 7) // 8 * 8
        self.marker = pos
        pos += 8
        self.reg_out = {}
        for r in regs:
            self.reg_out[r["no"]] = pos
            pos += 8
        self.var_out = {}
        for d in decls:
            if d["kind"] == "local":
                self.var_out[d["name"]] = pos
                pos += 8
        self.extra_out = pos
        pos += extra_out
        self.length = pos + 16
        self.minimum = pos + 8


MARK = 0x5a

# C05 hooks in here: called with every program object after assembling
LOAD_OBSERVER = None


def _observe(obj):
    if LOAD_OBSERVER is not None:
        if obj.status == "verifier":
            try:   # while the map fds are still open
                obj.vlog = obj.verifier_log()
            except Exception as e:
                obj.vlog = f"(no log: {e})"
        LOAD_OBSERVER(obj)


class Program:
    def __init__(self, decls, regs, body, extra_out=0, subprograms=(),
                 extra_ns=None, base=XDP, post_dump=None):
        self.decls = decls
        self.regs = regs
        self.layout = lay = Layout(decls, regs, extra_out)
        self.code = None
        self.vlog = None
        self.load_error = None
        self.fd = None
        prog = self

        def program(e):
            # ---- prologue: raw loads of the inputs
            for d in decls:
                if d["kind"] == "local":
                    size = fsize(d["fmt"])
                    addr = type(e).__dict__[d["name"]].relative_addr
                    e.append(Opcode.LD + SIZE_OP[size], 0, 9,
                             lay.var_in[d["name"]], 0)
                    e.append(Opcode.STX + SIZE_OP[size], 10, 0, addr, 0)
            # the registers last: r0, the scratch register above, may be one
            for r in regs:
                size = 4 if r["view"] in ("w", "sw") else 8
                e.append(Opcode.LD + SIZE_OP[size], r["no"], 9,
                         lay.reg_in[r["no"]], 0)
                e.owners.add(r["no"])
            body(e, prog)
            # ---- epilogue: raw dump
            e.append(Opcode.ST + Opcode.B, 9, 0, lay.marker, MARK)
            for r in regs:
                if r["no"] in e.owners:
                    e.append(Opcode.STX + Opcode.DW, 9, r["no"],
                             lay.reg_out[r["no"]], 0)
                    e.append(Opcode.ST + Opcode.B, 9, 0, lay.marker + 1
                             + REG_CANDIDATES.index(r["no"]), 1)
            for d in decls:
                if d["kind"] == "local":
                    size = fsize(d["fmt"])
                    addr = type(e).__dict__[d["name"]].relative_addr
                    e.append(Opcode.LD + SIZE_OP[size], 0, 10, addr, 0)
                    e.append(Opcode.STX + Opcode.DW, 9, 0,
                             lay.var_out[d["name"]], 0)
            if post_dump is not None:
                post_dump(e, prog)

        ns = {"license": "GPL", "minimumPacketSize": lay.minimum,
              "program": program}
        if any(d["kind"] == "map" for d in decls):
            ns["amap"] = ArrayMap()
        for d in decls:
            if d["kind"] == "local":
                ns[d["name"]] = LocalVar(pyfmt(d["fmt"]))
            elif d["kind"] == "map":
                ns[d["name"]] = ns["amap"].globalVar(pyfmt(d["fmt"]))
            elif d["kind"] == "pkt":
                ns[d["name"]] = PacketVar(lay.pkt_var[d["name"]], pyfmt(d["fmt"]))
        if extra_ns:
            ns.update(extra_ns)
        self.cls = type("P", (base,), ns)
        self.ebpf = self.cls(subprograms=list(subprograms)) \
            if subprograms else self.cls()

    # ------------------------------------------------------------ building
    def assemble(self, tracker=None, use_kernel=True):
        self.status = self._assemble(tracker, use_kernel)
        _observe(self)
        return self.status

    def verifier_log(self):
        return Loaded.verifier_log(self)

    def _assemble(self, tracker=None, use_kernel=True):
        """assemble (and load, when the kernel is available).  Returns
        'ok', 'rejected' (AssembleError) or 'verifier' (kernel refused)."""
        e = self.ebpf
        if use_kernel and kernel.available():
            captured = {}
            real = ebpf_bpf.prog_load

            def capture(prog_type, insns, *a, **k):
                captured["code"] = bytes(insns)
                return real(prog_type, insns, *a, **k)

            ebpf_bpf.prog_load = capture
            try:
                e.load(log_level=0)
                self.fd = e.file_descriptor
            except AssembleError as err:
                self.load_error = str(err)
                return "rejected"
            except OSError as err:
                self.code = captured.get("code")
                self.load_error = f"{type(err).__name__}: {err}"
                return "verifier"
            finally:
                ebpf_bpf.prog_load = real
            self.code = captured["code"]
            return "ok"
        try:
            self.code = e.assemble()
        except AssembleError as err:
            self.load_error = str(err)
            return "rejected"
        return "ok"

    def verifier_message(self):
        """reload with a log to get the verifier's reason (slow path)"""
        from ebpfcat.ebpf import pack as _p  # noqa
        try:
            code = self.code
            import ctypes
            lic = ctypes.create_string_buffer(b"GPL")
            cbuf = ctypes.create_string_buffer(code, len(code))
            log = ctypes.create_string_buffer(1 << 16)
            attr = struct.pack("IIQQIIQII16sII", 6, len(code) // 8,
                               ctypes.addressof(cbuf), ctypes.addressof(lic),
                               1, len(log), ctypes.addressof(log), 0, 0,
                               b"verif", 0, 0)
            fd, _ = kernel.bpf(5, attr)
            import os
            os.close(fd)
            return "loads on retry"
        except OSError:
            txt = log.value.decode("utf8", "replace")
            return txt[-600:]

    # ------------------------------------------------------------- running
    def map_bytes(self):
        name = "amap"
        if name in type(self.ebpf).__dict__ and hasattr(self.ebpf, name) \
                and type(self.ebpf).__dict__[name].size:
            return getattr(self.ebpf, name)
        return None

    def packet(self, values, fill=0):
        """build the input packet from {name or ('reg', no): raw int}"""
        lay = self.layout
        pkt = bytearray([fill]) * lay.length
        for r in self.regs:
            v = values[f"r{r['no']}"]
            pkt[lay.reg_in[r["no"]]:lay.reg_in[r["no"]] + 8] = \
                (v & (2**64 - 1)).to_bytes(8, "little")
        for d in self.decls:
            size = fsize(d["fmt"])
            v = values[d["name"]] & ((1 << (8 * size)) - 1)
            if d["kind"] == "local":
                pos = lay.var_in[d["name"]]
                pkt[pos:pos + 8] = v.to_bytes(8, "little")
            elif d["kind"] == "pkt":
                pos = lay.pkt_var[d["name"]]
                pkt[pos:pos + size] = v.to_bytes(size, "little")
        # clear the output area
        pkt[lay.marker:lay.length] = bytes(lay.length - lay.marker)
        return pkt

    def map_positions(self):
        return {d["name"]: self.ebpf.__dict__[d["name"]]
                for d in self.decls if d["kind"] == "map"}

    def run(self, values, tracker, ktimes=None, randoms=None,
            differential=True):
        """run one input vector in interpreter (and kernel); returns Obs"""
        pkt = self.packet(values)
        mp = self.map_bytes()
        init_map = None
        if mp is not None:
            init_map = bytearray(len(mp))
            for d in self.decls:
                if d["kind"] == "map":
                    pos = self.ebpf.__dict__[d["name"]]
                    size = fsize(d["fmt"])
                    init_map[pos:pos + size] = (
                        values[d["name"]] & ((1 << (8 * size)) - 1)
                    ).to_bytes(size, "little")
        # ---- interpreter
        maps = {}
        for fd, (mtype, ks, vs, mx, *_) in tracker.maps.items():
            if mtype == 2:
                m = interp.ArrayModel(fd, ks, vs, mx)
                if init_map is not None and vs == len(init_map):
                    m.values[0][0][:vs] = init_map
                maps[fd] = m
            elif mtype == 6:
                maps[fd] = interp.ArrayModel(fd, ks, vs, mx,
                                             ncpu=kernel.possible_cpus())
            elif mtype in (1, 9):
                maps[fd] = interp.HashModel(fd, ks, vs, mx, lru=mtype == 9)
            elif mtype == 3:
                maps[fd] = interp.ProgArrayModel(fd, ks, vs, mx)
        m = interp.Machine(self.code, maps=maps, packet=pkt, ktimes=ktimes,
                           randoms=randoms)
        obs = Obs()
        try:
            obs.retval = m.run()
            obs.packet = bytes(m.packet)
            obs.flags = m.flags
        except interp.Fault as f:
            obs.fault = str(f)
            obs.packet = bytes(m.packet)
        if init_map is not None:
            for fd, mm in maps.items():
                if mm.kind == "array" and mm.value_size == len(init_map):
                    obs.map = bytes(mm.values[0][0][:mm.value_size])
        obs.machine = m
        # ---- kernel
        if differential and self.fd is not None and obs.fault is None \
                and not (ktimes or randoms):
            if mp is not None:
                mp[:len(init_map)] = bytes(init_map)
            retval, out = kernel.test_run(self.fd, bytes(pkt))
            kmap = bytes(mp[:]) if mp is not None else None
            if (retval, out, kmap) != (obs.retval, obs.packet, obs.map):
                raise HarnessError(
                    "interpreter and kernel disagree: "
                    f"retval {obs.retval} vs {retval}; packet diff at "
                    f"{[i for i, (a, b) in enumerate(zip(obs.packet, out)) if a != b][:8]}"
                    f" map equal={kmap == obs.map}; values={values}")
            obs.kernel_checked = True
        return obs

    def read_outputs(self, obs):
        """raw integers of every register / variable after the run"""
        lay = self.layout
        pkt = obs.packet
        out = {"__ran": pkt[lay.marker] == MARK}
        for r in self.regs:
            if pkt[lay.marker + 1 + REG_CANDIDATES.index(r["no"])]:
                pos = lay.reg_out[r["no"]]
                out[f"r{r['no']}"] = int.from_bytes(pkt[pos:pos + 8],
                                                    "little")
        for d in self.decls:
            size = fsize(d["fmt"])
            if d["kind"] == "local":
                pos = lay.var_out[d["name"]]
                out[d["name"]] = int.from_bytes(pkt[pos:pos + size], "little")
            elif d["kind"] == "pkt":
                pos = lay.pkt_var[d["name"]]
                out[d["name"]] = int.from_bytes(pkt[pos:pos + size], "little")
            elif d["kind"] == "map":
                pos = self.ebpf.__dict__[d["name"]]
                out[d["name"]] = int.from_bytes(obs.map[pos:pos + size],
                                                "little")
        return out


class Obs:
    retval = None
    packet = None
    map = None
    fault = None
    flags = frozenset()
    kernel_checked = False
    machine = None


# ---------------------------------------------------------------- generic API

class Loaded:
    """an ebpfcat program instance, assembled and (if possible) loaded"""

    def __init__(self, ebpf, use_kernel=True):
        self.ebpf = ebpf
        self.code = None
        self.fd = None
        self.error = None
        self.status = None
        self.vlog = None
        if use_kernel and kernel.available():
            captured = {}
            real = ebpf_bpf.prog_load

            def capture(prog_type, insns, *a, **k):
                captured["code"] = bytes(insns)
                return real(prog_type, insns, *a, **k)

            ebpf_bpf.prog_load = capture
            try:
                ebpf.load(log_level=0)
                self.fd = ebpf.file_descriptor
                self.status = "ok"
            except AssembleError as err:
                self.error = str(err)
                self.status = "rejected"
            except OSError as err:
                self.error = f"{type(err).__name__}: {err}"
                self.status = "verifier"
            finally:
                ebpf_bpf.prog_load = real
            self.code = captured.get("code")
        else:
            try:
                self.code = ebpf.assemble()
                self.status = "ok"
            except AssembleError as err:
                self.error = str(err)
                self.status = "rejected"
        _observe(self)

    def verifier_log(self):
        import ctypes
        import os
        code = self.code
        lic = ctypes.create_string_buffer(b"GPL")
        cbuf = ctypes.create_string_buffer(code, len(code))
        log = ctypes.create_string_buffer(1 << 18)
        attr = struct.pack("IIQQIIQII16sII", self.ebpf.prog_type.value,
                           len(code) // 8, ctypes.addressof(cbuf),
                           ctypes.addressof(lic), 1, len(log),
                           ctypes.addressof(log), 0, 0, b"verif", 0, 0)
        try:
            fd, _ = kernel.bpf(5, attr)
            os.close(fd)
            return "loads on retry"
        except OSError:
            return log.value.decode("utf8", "replace")[-800:]


def make_models(tracker, array_init=None, ncpu=None):
    """interpreter map models for every map the tracker saw created;
    array_init: {fd: bytes} initial content of 1-entry array maps"""
    maps = {}
    for fd, (mtype, ks, vs, mx, *_) in tracker.maps.items():
        if mtype == 2:
            m = interp.ArrayModel(fd, ks, vs, mx)
            if array_init and fd in array_init:
                m.values[0][0][:vs] = array_init[fd][:vs]
        elif mtype == 6:
            m = interp.ArrayModel(fd, ks, vs, mx,
                                  ncpu=ncpu or kernel.possible_cpus())
        elif mtype in (1, 9):
            m = interp.HashModel(fd, ks, vs, mx, lru=mtype == 9)
        elif mtype == 3:
            m = interp.ProgArrayModel(fd, ks, vs, mx)
        else:
            continue
        maps[fd] = m
    return maps


def run_both(loaded, tracker, packet, arrays=None, ktimes=None, randoms=None,
             differential=True, cpu=0):
    """arrays: {fd: (mmap object, initial bytes)} for mmap'ed array maps.
    Returns Obs with .maps = {fd: bytes} for those arrays."""
    arrays = arrays or {}
    maps = make_models(tracker, {fd: init for fd, (_, init) in arrays.items()})
    m = interp.Machine(loaded.code, maps=maps, packet=packet, ktimes=ktimes,
                       randoms=randoms, cpu=cpu)
    obs = Obs()
    obs.machine = m
    try:
        obs.retval = m.run()
        obs.flags = m.flags
    except interp.Fault as f:
        obs.fault = str(f)
    obs.packet = bytes(m.packet)
    obs.maps = {fd: bytes(maps[fd].values[0][0][:maps[fd].value_size])
                for fd in arrays}
    if differential and loaded.fd is not None and obs.fault is None \
            and not (ktimes or randoms) and len(packet) >= 14:
        for fd, (mm, init) in arrays.items():
            mm[:len(init)] = bytes(init)
        retval, out = kernel.test_run(loaded.fd, bytes(packet))
        kmaps = {fd: bytes(mm[:len(init)]) for fd, (mm, init) in arrays.items()}
        if (retval, out, kmaps) != (obs.retval, obs.packet, obs.maps):
            raise HarnessError(
                "interpreter and kernel disagree: "
                f"retval {obs.retval} vs {retval}; packet diff at "
                f"{[i for i, (a, b) in enumerate(zip(obs.packet, out)) if a != b][:8]}"
                f" len {len(obs.packet)} vs {len(out)};"
                f" maps equal={kmaps == obs.maps}")
        obs.kernel_checked = True
    return obs


def array_fd(tracker, size, last=False):
    """fd of the (only) mmap'able array map of that value size; last=True:
    of the one created last (an earlier program had a map of that size too)"""
    fds = [fd for fd, (t, ks, vs, mx, *_) in tracker.maps.items()
           if t == 2 and vs == size]
    if last and fds:
        return max(fds)
    if len(fds) != 1:
        raise HarnessError(f"cannot identify array map of size {size}: {fds}")
    return fds[0]
