"""C23 Processes sharing an interface coordinate the dispatcher safely

machine : 2-3 participants, each a "process" (thread + own event loop under
          the harness-owned scheduler of vf/sched.py) running the real
          ParallelEtherCat.run() once or twice: start, a body that allocates
          FMMU address windows, stop.  Every file-system, lock, bpf-object,
          attach / detach, connect and sleep operation is a scheduling point;
          the file system is a real scratch directory.
schedule: Hypothesis draws run-length chunks "(participant, n operations)";
          in addition a systematic part enumerates, for two participants,
          every placement of one preemption (switch to the other participant
          at operation s, switch back after t operations).
oracle  : after every operation -
          * at most one participant is inside the install section (from
            creating the program table to pinning it);
          * while a participant is running, a dispatcher is attached, the
            pinned program table exists and is the attached dispatcher's, and
            it is the table the participant uses;
          * running participants have pairwise distinct ethertypes;
          * running participants have pairwise distinct FMMU windows, and
            every logical address a participant was given lies in its window;
          * running participants share one mailbox lock file, the one a
            newcomer would open (C15's cross-process clause at this level).
bitmap  : a quarter of the cases are histories on FMMULock itself (reserve /
          release in any order, windows that share a bitmap byte): a window
          is never handed out while a live lock holds it, and a release
          clears exactly its own bit.
"""
import os
import re

from hypothesis import strategies as st

import ebpfcat.ebpfcat as ebmod
import ebpfcat.ethercat as ecmod
import ebpfcat.lock as lockmod

from .. import sched as vsched
from ..runner import HarnessError

ID = "C23"
LEVEL = "exploration"
TECHNIQUE = ("schedule exploration with a harness-owned scheduler: "
             "Hypothesis-generated interleavings of the participants' "
             "file-system / lock / bpf operations plus systematic enumeration "
             "of single preemptions, invariants checked after every operation")
RULE = ("Hypothesis draws (2-3 participants with 1-2 start/stop rounds, body "
        "lengths, FMMU allocations, random-number pools, a schedule of "
        "run-length chunks, optionally a crash while running); non-trivial = "
        "the lifetimes of at least two participants overlapped (one started "
        "or stopped while another was starting, running or stopping) and at "
        "least two reached the running state; distinct by the sequence of "
        "(participant, operation) pairs; enumerated: every placement of "
        "one preemption between two participants, leavers interrupted in "
        "their stop, runs of up to 70000 colliding random draws")
ASSUMPTIONS = [
    "a participant = the real ParallelEtherCat.run() on a thread; processes "
    "are interleaved at the granularity of system calls (each proxied "
    "operation is atomic), not inside them",
    "attach replaces whatever XDP program is attached, detach removes "
    "whatever is attached (XDPFlags.SKB_MODE without UPDATE_IF_NOEXIST, as "
    "ebpfcat.xdp uses it); pinning onto an existing path fails with EEXIST",
    "fcntl.lockf is modelled (vf/sched.py, compared with the kernel in the "
    "selftest); the file system is the real one in a scratch directory",
    "random numbers (ethertype, FMMU window) come from small generated pools "
    "so that collisions are frequent",
    "a participant whose start fails with an exception is not running; "
    "failing to start is counted, not judged (the property is about safety)",
    "fewer than 1023 logical addresses are requested per participant (the "
    "10-bit sync-group field of the FMMU address is not overflowed)",
    "crashes are injected only while a participant is in its body (its lock "
    "file stays behind, its record locks are released)",
]
EXAMPLES = {"quick": 40, "thorough": 1500}
MIN_NONTRIVIAL = {"quick": 150, "thorough": 3000}
CASE_TIMEOUT = 120

NET = "vf0"


@st.composite
def case_strategy(draw):
    n = draw(st.sampled_from([2, 2, 3]))
    parts = []
    for i in range(n):
        parts.append({
            "rounds": draw(st.sampled_from([1, 1, 2])),
            "body": draw(st.integers(1, 4)),
            "fmmu": draw(st.integers(0, 3)),
            "eth": draw(st.permutations([0x3000, 0x3001, 0x3002, 0x3003])),
            "win": draw(st.permutations([1, 2, 3, 4, 5])),
        })
    chunks = draw(st.lists(
        st.tuples(st.integers(0, n - 1),
                  st.sampled_from([1, 1, 2, 3, 5, 8, 13, 30])),
        min_size=0, max_size=30))
    crash = None
    if draw(st.integers(0, 9)) == 0:
        crash = draw(st.integers(0, n - 1))
    return {"participants": parts, "chunks": [list(c) for c in chunks],
            "crash": crash}


def fmmu_strategy():
    """histories on the address bitmap itself: processes reserve and release
    windows in any order"""
    op = st.one_of(
        st.tuples(st.just("new"), st.integers(1, 23)),
        st.tuples(st.just("new"), st.integers(8, 15)),
        st.tuples(st.just("remove"), st.integers(0, 5)))
    return st.fixed_dictionaries({
        "kind": st.just("fmmu"),
        "ops": st.lists(op, min_size=2, max_size=14),
    })


def strategy(tier):
    return st.one_of(case_strategy(), case_strategy(), case_strategy(),
                     fmmu_strategy())


def run_fmmu(case):
    import tempfile
    import shutil
    root = tempfile.mkdtemp(prefix="vf-fmmu-")
    path = root + "/run/ebpf/vf0.fmmu"
    live = []          # (lock object, window)
    kinds = []
    state = {"next": None, "fresh": 30}

    def pick(a, b=None):
        if state["next"] is not None:
            v, state["next"] = state["next"], None
            return v
        state["fresh"] += 1         # the wanted window was taken: go on
        return state["fresh"]

    def bitmap():
        try:
            with open(path, "rb") as f:
                data = f.read()
        except FileNotFoundError:
            data = b""
        return {i for i in range(len(data) * 8) if data[i // 8] >> i % 8 & 1}

    def fail(what):
        return dict(ok=False, nontrivial=True, classes=["fmmu-bitmap"],
                    bucket=("fmmu", what[:40]),
                    what=f"address bitmap: {what}; history {kinds}, live "
                         f"windows {[w for _, w in live]}")
    try:
        with vsched.patched(lockmod, randrange=pick):
            for op, arg in case["ops"]:
                if op == "new":
                    state["next"] = arg
                    try:
                        lk = lockmod.FMMULock(path)
                    except Exception as e:
                        return fail(f"FMMULock() raised "
                                    f"{type(e).__name__}: {e}")
                    w = lk.base_addr >> 22
                    kinds.append(f"new->{w}")
                    if w in [x for _, x in live]:
                        return fail(f"window {w} was handed out although a "
                                    f"live lock holds it")
                    live.append((lk, w))
                    if w not in bitmap():
                        return fail(f"window {w} is not marked in the bitmap")
                elif live:
                    lk, w = live.pop(arg % len(live))
                    before = bitmap()
                    lk.remove()
                    kinds.append(f"remove {w}")
                    after = bitmap()
                    if after != before - {w}:
                        return fail(f"releasing window {w} changed the "
                                    f"bitmap from {sorted(before)} to "
                                    f"{sorted(after)}")
    finally:
        for lk, w in live:
            try:
                os.close(lk.fd)
            except OSError:
                pass
        shutil.rmtree(root, ignore_errors=True)
    removes = sum(1 for k in kinds if k.startswith("remove"))
    return dict(ok=True, nontrivial=removes >= 1 and len(kinds) >= 4,
                key=repr(("fmmu", kinds)), classes=["fmmu-bitmap"],
                summary={"history": kinds})


def enumerate_cases(tier):
    """two participants, one preemption: P_a runs s operations, P_b runs t
    operations, then P_a to its end, then P_b"""
    base = {"rounds": 1, "body": 1, "fmmu": 1,
            "eth": [0x3000, 0x3001, 0x3002, 0x3003], "win": [1, 2, 3, 4, 5]}
    for first in (0, 1):
        for s in range(0, 34):
            for t in range(1, 34):
                yield {"participants": [dict(base), dict(base)],
                       "chunks": [[first, s], [1 - first, t],
                                  [first, 100], [1 - first, 100]],
                       "crash": None}
    # the last leaver is interrupted inside its stop (down to the release of
    # its FMMU window), a newcomer starts and stays, the leaver finishes, a
    # third participant starts: the two newcomers must not share a window
    stay = dict(base, body=40)
    for s in range(20, 30):
        for t in range(14, 27, 2):
            for third in ([1, 2, 3, 4, 5], [2, 1, 3, 4, 5]):
                yield {"participants": [dict(base), dict(stay),
                                        dict(base, win=third)],
                       "chunks": [[0, s], [1, t], [0, 100], [1, 8],
                                  [2, 100], [1, 100]],
                       "crash": None}
    # long runs of unlucky draws: the random number generator hands a
    # newcomer the window (the EtherType) of a participant that is running
    # again and again before it comes up with a free one
    for repeat in (3, 300, 4095, 4096, 4100, 70000):
        yield {"participants": [dict(stay),
                                dict(base, win=[1, 2, 3], win_repeat=repeat)],
               "chunks": [[0, 30], [1, 100000], [0, 100000]], "crash": None}
    for repeat in (2, 50, 99, 100, 101, 150):
        yield {"participants": [dict(stay), dict(stay),
                                dict(base, eth=[0x3000, 0x3001],
                                     eth_repeat=repeat)],
               "chunks": [[0, 30], [1, 40], [2, 100000], [0, 100000],
                          [1, 100000]], "crash": None}
    if tier != "thorough":
        return
    # three participants: P0 is interrupted somewhere in its stop, P1 runs t1
    # operations, P2 runs t2, then everybody finishes in turn
    for s in range(17, 28):
        for t1 in range(1, 34, 2):
            for t2 in range(1, 34, 2):
                yield {"participants": [dict(base), dict(base), dict(base)],
                       "chunks": [[0, s], [1, t1], [2, t2], [0, 100],
                                  [1, 100], [2, 100]],
                       "crash": None}


class World:
    def __init__(self, sched, case):
        self.s = sched
        self.case = case
        self.attached = None
        self.next_map = 100
        self.state = {}
        self.installing = set()
        self.tearing = set()
        self.ec = {}
        self.fmmu = {}
        self.errors = {}
        self.bound = {}
        self.rand = {}
        self.facts = set()
        self.reached_running = set()
        self.overlap = False
        self.renamed = {}
        self.known_msg = None
        self.pin = sched.root + f"/sys/fs/bpf/{NET}/programs"
        self.lockdir = f"/run/lock/ebpf.{NET}.lock"

    # ----- stubs standing in for the kernel's bpf objects and the interface
    def create_map(self, *args):
        self.s.yield_point("create_map")
        self.next_map += 1
        self.installing.add(self.s.pid())
        return self.next_map

    def obj_pin(self, path, fd):
        self.s.yield_point("obj_pin")
        try:
            with open(self.s.tr(path), "x") as f:
                f.write(str(fd))
        finally:
            self.installing.discard(self.s.pid())

    def obj_get(self, path):
        self.s.yield_point("obj_get")
        with open(self.s.tr(path)) as f:
            return int(f.read())

    def randrange_eth(self, a, b=None):
        pid = self.s.pid()
        pool = self.case["participants"][pid]["eth"]
        i = self.rand.get(("e", pid), 0)
        self.rand["e", pid] = i + 1
        # "eth_repeat": the first number comes up that many times in a row
        r = self.case["participants"][pid].get("eth_repeat", 1)
        return pool[0] if i < r else pool[(i - r + 1) % len(pool)]

    def randrange_win(self, a, b=None):
        pid = self.s.pid()
        pool = self.case["participants"][pid]["win"]
        i = self.rand.get(("w", pid), 0)
        self.rand["w", pid] = i + 1
        # windows of participants that left (except the last one) stay
        # reserved: after the pool, go on with fresh numbers so that the
        # library's search for a free window ends
        r = self.case["participants"][pid].get("win_repeat", 1)
        if i < r:
            return pool[0]
        i -= r - 1
        return pool[i] if i < len(pool) else 6 + (i - len(pool)) % 500


def make_xdp(world):
    class StubXDP:
        programs = None

        async def attach(self, network):
            world.s.yield_point("attach")
            if world.attached is not None:
                world.s.event("attach-replaces", world.attached)
            world.attached = (world.s.pid(), self.programs)

        def close(self):
            pass

        async def detach(self, network):
            world.s.yield_point("detach")
            world.s.event("detach", world.attached)
            world.attached = None
    return StubXDP


def make_connect(world):
    async def connect(self):
        world.s.yield_point("connect")
        world.bound[world.s.pid()] = self.ethertype
    return connect


EXCUSED_KINDS = ("dispatcher", "table", "mbx-file")


def kind_of(result):
    return ("dispatcher" if "dispatcher is attached" in result
            else "table" if "program table" in result or "pinned" in result
            else "mbx-file" if "mailbox lock file" in result
            else "installing" if "installing" in result
            else "ethertype" if "ethertype" in result
            else "fmmu" if "FMMU" in result or "window" in result
            else "other")


def invariant(world):
    """the invariants; consequences of the known teardown race for the
    dispatcher / table / lock file are remembered, not reported at once, so
    that the search goes on behind them (ethertypes and FMMU windows must
    stay distinct even then)"""
    msgs = _invariant(world)
    for msg in msgs:
        if kind_of(msg) in EXCUSED_KINDS \
                and "installer-started-during-teardown" in world.facts:
            if world.known_msg is None:
                world.known_msg = msg
            continue
        return msg
    return None


def _invariant(world):
    return [m for m in _invariants(world) if m]


def _invariants(world):
    """yield every violated invariant (several may be broken at once)"""
    s = world.s
    stopping = {q for q, st_ in world.state.items() if st_ == "stopping"}
    if stopping:
        for p, op in s.trace[-1:]:
            if op.startswith("rename(") and p not in stopping \
                    and world.renamed.get(p):
                world.facts.add("installer-started-during-teardown")
    if len(world.installing) > 1:
        yield (f"participants {sorted(world.installing)} are installing the "
                f"dispatcher at the same time")
    running = sorted(p for p, st_ in world.state.items() if st_ == "running")
    if not running:
        return
    for p in running:
        ec = world.ec[p]
        if world.attached is None:
            yield (f"participant {p} is running but no dispatcher is "
                   f"attached to the interface")
            continue
        try:
            with open(world.pin) as f:
                pinned = int(f.read())
        except FileNotFoundError:
            yield (f"participant {p} is running but the program table is "
                   f"not pinned (unreachable for further participants)")
            continue
        if pinned != world.attached[1]:
            yield (f"participant {p} is running; the pinned program table "
                    f"({pinned}) is not the one of the attached dispatcher "
                    f"({world.attached[1]})")
        if ec.programs != world.attached[1]:
            yield (f"participant {p} is running with program table "
                    f"{ec.programs}, the attached dispatcher uses "
                    f"{world.attached[1]}")
    eth = {}
    for p in running:
        e = world.bound.get(p)
        if e in eth:
            yield (f"participants {eth[e]} and {p} are running with the "
                    f"same ethertype {e:#x}")
        eth[e] = p
    inodes = {}
    for p in running:
        lf = getattr(world.ec[p], "mbx_lock_file", None)
        if lf is None:
            continue
        try:
            inodes[p] = os.fstat(lf.fd).st_ino
        except OSError:
            continue
    if len(set(inodes.values())) > 1:
        yield (f"running participants use different mailbox lock files "
                f"(inodes {inodes}): their byte locks do not exclude each "
                f"other")
    if inodes:
        try:
            cur = os.stat(s.root + f"/run/ebpf/{NET}").st_ino
        except FileNotFoundError:
            cur = None
        if cur != next(iter(inodes.values())):
            yield (f"the mailbox lock file of the running participants "
                    f"{sorted(inodes)} is no longer the one at "
                    f"/run/ebpf/{NET} (a newcomer would get its own)")
    wins = {}
    for p in running:
        fl = getattr(world.ec[p], "fmmu_lock_file", None)
        if fl is None:
            continue
        w = fl.base_addr >> 22
        if w in wins:
            yield (f"participants {wins[w]} and {p} are running with the "
                    f"same FMMU address window {w}")
        wins[w] = p
        for a in world.fmmu.get(p, []):
            if a >> 22 != w:
                yield (f"participant {p} was given logical address {a:#x} "
                        f"outside its window {w}")


def run_case(case):
    if case.get("kind") == "fmmu":
        return run_fmmu(case)
    n = len(case["participants"])
    with vsched.scratch_root() as root:
        s = vsched.Sched(root)
        world = World(s, case)
        osp = vsched.OsProxy(s)

        real_remove = osp.remove
        real_rmdir = osp.rmdir

        class OsC23(vsched.OsProxy):
            def rmdir(self, path):
                r = real_rmdir(path)
                if path == world.lockdir:
                    world.tearing.add(s.pid())
                return r

            def rename(self, a, b):
                world.renamed[s.pid()] = False
                r = vsched.OsProxy.rename(self, a, b)
                world.renamed[s.pid()] = True
                return r
        osp = OsC23(s)

        async def participant(pid):
            script = case["participants"][pid]
            for rnd in range(script["rounds"]):
                ec = ebmod.ParallelEtherCat(NET)
                world.ec[pid] = ec
                world.fmmu[pid] = []
                world.state[pid] = "starting"
                if any(st_ in ("starting", "running", "stopping")
                       for q, st_ in world.state.items() if q != pid):
                    world.overlap = True
                cm = ec.run()
                try:
                    await cm.__aenter__()
                except Exception as e:
                    world.installing.discard(pid)
                    world.state[pid] = "failed"
                    world.errors[pid] = f"start: {type(e).__name__}: {e}"
                    return
                world.state[pid] = "running"
                world.reached_running.add(pid)
                for i in range(script["body"]):
                    s.yield_point("body")
                    if i < script["fmmu"]:
                        world.fmmu[pid].append(ec.get_fmmu_addr())
                world.state[pid] = "stopping"
                if any(st_ in ("starting", "running", "stopping")
                       for q, st_ in world.state.items() if q != pid):
                    world.overlap = True
                try:
                    await cm.__aexit__(None, None, None)
                except Exception as e:
                    world.state[pid] = "stop-error"
                    world.errors[pid] = f"stop: {type(e).__name__}: {e}"
                    world.tearing.discard(pid)
                    return
                world.tearing.discard(pid)
                world.state[pid] = "stopped"

        chunks = [list(c) for c in case["chunks"]]
        crash = {"pid": case.get("crash"), "done": False}

        def policy(step, runnable, waiting, last):
            if crash["pid"] is not None and not crash["done"] \
                    and waiting.get(crash["pid"]) == "body":
                crash["done"] = True
                world.state[crash["pid"]] = "crashed"
                return ("crash", crash["pid"])
            if world.tearing and any(
                    waiting.get(p, "").startswith(("mkdtemp", "begin"))
                    for p in runnable):
                pass
            while chunks:
                p, k = chunks[0]
                if k <= 0 or p not in runnable:
                    chunks.pop(0)
                    continue
                chunks[0][1] -= 1
                return p
            if last in runnable and not waiting[last].startswith("sleep("):
                return last
            # somebody who sleeps (polls) lets the others run
            later = [p for p in runnable if last is None or p > last]
            return (later or runnable)[0]

        logp = vsched.LogProxy(s)
        result = None
        with vsched.patched(ebmod, os=osp, tempfile=vsched.TempProxy(s),
                            shutil=vsched.ShutilProxy(s),
                            open=vsched.make_open(s),
                            sleep=vsched.make_sleep(s), logging=logp,
                            create_map=world.create_map,
                            obj_pin=world.obj_pin, obj_get=world.obj_get,
                            randrange=world.randrange_eth,
                            EtherXDP=make_xdp(world)), \
                vsched.patched(lockmod, os=osp, fcntl=vsched.FcntlProxy(s),
                               sleep=vsched.make_sleep(s), logging=logp,
                               randrange=world.randrange_win), \
                vsched.patched(ecmod.EtherCat, connect=make_connect(world)):
            for pid in range(n):
                s.spawn(pid, participant)
            try:
                result = s.run(policy, invariant=lambda: invariant(world))
            except vsched.Deadlock as e:
                result = f"no progress: {e}"
            finally:
                for fd in list(s.fd_owner):
                    try:
                        os.close(fd)
                    except OSError:
                        pass
    ops = [f"{p}:{op}" for p, op in s.trace]
    classes = [f"participants={n}",
               f"running={len(world.reached_running)}",
               "overlap" if world.overlap else "sequential"]
    for p, st_ in sorted(world.state.items()):
        classes.append(f"end={st_}")
    for e in s.events:
        if e[2] in ("attach-replaces", "log.error", "log.warn"):
            classes.append(e[2])
    if case.get("crash") is not None and crash["done"]:
        classes.append("crash")
    for pid, out in s.done.items():
        if out.startswith("error"):
            raise HarnessError(f"participant {pid}: {out}")
    if not result and world.known_msg:
        result = world.known_msg
    if result:
        kind = kind_of(result)
        return dict(ok=False, nontrivial=True, classes=sorted(set(classes)),
                    facts=sorted(world.facts), kind=kind,
                    bucket=(re.sub(r"\d+", "N", result)[:90],
                            tuple(sorted(world.facts))),
                    what=f"{result}; operations before: {ops[-28:]}; "
                         f"participant states {world.state}, errors "
                         f"{world.errors}")
    return dict(ok=True,
                nontrivial=world.overlap and len(world.reached_running) >= 2,
                key=repr(ops), classes=sorted(set(classes)),
                summary={"operations": len(ops), "trace": ops[:60],
                         "states": {str(k): v
                                    for k, v in world.state.items()},
                         "errors": {str(k): v
                                    for k, v in world.errors.items()}})


def selftest():
    vsched.selftest_lockf()


KNOWN = {
    # the stop of the last leaver (remove its lock file, rmdir, detach, unpin)
    # is not atomic with respect to a new installer: root cause = a
    # participant wins the rename (onto the emptied or removed lock
    # directory) while another one is inside its stop sequence
    # (only the consequences for dispatcher / program table / mailbox lock
    # file are attributed to it: ethertypes and FMMU windows must be distinct
    # even then)
    "C23-teardown-races-with-new-installer":
        lambda case, res: "installer-started-during-teardown"
        in res.get("facts", ()) and res.get("kind") in (
            "dispatcher", "table", "mbx-file"),
}
