#!/usr/bin/env python3
"""tools/seedtable.py: the per-change table of DESIGN.md 11.7 from
seeded/<ID>/meta.json and seeded/RESULTS.json (developer tool)."""
import glob
import json
import os
import re

ROOT = "/verif/seeded"
results = json.load(open(f"{ROOT}/RESULTS.json"))
rows = ["| change | what it does (from the agent's meta.json) | caught by |",
        "|---|---|---|"]
for key in sorted(results):
    pid, v = key.split("/")
    try:
        meta = json.load(open(f"{ROOT}/{pid}/meta.json"))
    except Exception:
        meta = {}
    m = meta.get(v) or {}
    if not isinstance(m, dict):
        m = {"summary": str(m)}
    text = m.get("summary") or m.get("what") or m.get("description") or ""
    if isinstance(text, (list, dict)):
        text = json.dumps(text)
    text = re.sub(r"\s+", " ", text).replace("|", "/")[:130]
    rec = results[key]
    if rec.get("caught"):
        by = pid
    else:
        others = sorted(c for c, x in rec.get("checks", {}).items()
                        if c != pid and x["exit"] == 1)
        by = ", ".join(others) if others else "- (" + rec.get("note", "") + ")"
    rows.append(f"| {key} | {text} | {by} |")
table = "\n".join(rows) + "\n"
p = "/verif/DESIGN.md"
s = open(p).read()
start = s.index("| change | what it does (from the agent's meta.json) | caught by |")
end = s.index("\n\n", start) + 1
open(p, "w").write(s[:start] + table + s[end:])
print(len(rows) - 2, "rows")
