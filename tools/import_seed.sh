#!/bin/bash
# tools/import_seed.sh ID...: take the deliverables of a seeding sub-agent from
# its scratch worktree /tmp/seed/<ID>/_seed, confirm them there (diff applies,
# baseline test summary unchanged, demo exits 1 with / 0 without the change),
# and keep them as /verif/seeded/<ID>/.  Developer tool.
for id in "$@"; do
  w=/tmp/seed/$id
  s=$w/_seed
  [ -d "$s" ] || { echo "$id: no _seed"; continue; }
  git -C $w checkout -q -- ebpfcat
  mkdir -p /verif/seeded/$id
  for v in ${VARIANTS:-A B}; do
    [ -f $s/$v.diff ] || { echo "$id/$v: missing diff"; continue; }
    if ! git -C $w apply --check $s/$v.diff 2>/dev/null; then echo "$id/$v: diff does not apply"; continue; fi
    (cd $w && timeout 300 /venv/bin/python _seed/${v}_demo.py >/dev/null 2>&1); clean=$?
    git -C $w apply $s/$v.diff
    tests=$(cd $w && timeout 600 /venv/bin/python -m pytest -q -p no:cacheprovider 2>&1 | tail -1)
    (cd $w && timeout 300 /venv/bin/python _seed/${v}_demo.py >/dev/null 2>&1); broken=$?
    git -C $w checkout -q -- ebpfcat
    echo "$id/$v: demo clean=$clean seeded=$broken tests: $tests"
    cp $s/$v.diff $s/${v}_demo.py /verif/seeded/$id/
    python3 - "$id" "$v" "$clean" "$broken" "$tests" <<'PY'
import json, sys
pid, v, clean, broken, tests = sys.argv[1:]
p = f"/verif/seeded/{pid}/meta.json"
try:
    meta = json.load(open(p))
except FileNotFoundError:
    try:
        meta = json.load(open(f"/tmp/seed/{pid}/_seed/meta.json"))
    except Exception:
        meta = {}
try:
    fresh = json.load(open(f"/tmp/seed/{pid}/_seed/meta.json"))
    if v in fresh and v not in meta:
        meta[v] = fresh[v]
except Exception:
    pass
meta.setdefault(v, {})
if not isinstance(meta[v], dict):
    meta[v] = {"summary": str(meta[v])}
meta[v]["confirmed"] = {"demo_exit_unchanged": int(clean), "demo_exit_seeded": int(broken),
                        "tests_with_change": tests}
json.dump(meta, open(p, "w"), indent=1)
PY
  done
done
