"""Virtual-time asyncio event loop.

time() is a counter; the selector never blocks: it polls real file descriptors
with timeout 0 and, if nothing is ready, advances the counter by the timeout
asyncio asked for.  A case therefore is a pure function of its data.  Ready
callbacks are never permuted (asyncio guarantees FIFO and ebpfcat relies on it).

LoopStalled   : nothing is ready, no timer pending -> the awaited thing can
                never complete (deadlock); raised out of run_until_complete.
BudgetExceeded: more than `budget` loop iterations -> inconclusive / busy loop.
"""
import asyncio
import selectors


class LoopStalled(Exception):
    pass


class BudgetExceeded(Exception):
    pass


class VirtualSelector:
    def __init__(self, loop):
        self._sel = selectors.DefaultSelector()
        self._loop = loop

    def select(self, timeout=None):
        ev = self._sel.select(0)
        if ev:
            return ev
        if timeout is None:
            raise LoopStalled("no ready callback, no timer, no fd event")
        if timeout > 0:
            self._loop._vtime += timeout
        return []

    def register(self, *a, **k):
        return self._sel.register(*a, **k)

    def unregister(self, *a, **k):
        return self._sel.unregister(*a, **k)

    def modify(self, *a, **k):
        return self._sel.modify(*a, **k)

    def close(self):
        return self._sel.close()

    def get_key(self, *a, **k):
        return self._sel.get_key(*a, **k)

    def get_map(self):
        return self._sel.get_map()


class VirtualLoop(asyncio.SelectorEventLoop):
    def __init__(self, budget=200000):
        self._vtime = 0.0
        self.iterations = 0
        self.budget = budget
        super().__init__(VirtualSelector(self))

    def time(self):
        return self._vtime

    def _run_once(self):
        self.iterations += 1
        if self.iterations > self.budget:
            raise BudgetExceeded(f"{self.iterations} loop iterations")
        super()._run_once()


def run(coro_fn, budget=200000):
    """run coro_fn(loop) to completion on a fresh virtual loop, cancel
    everything left over, close the loop.  Returns (result, loop)."""
    loop = VirtualLoop(budget)
    asyncio.set_event_loop(loop)
    try:
        return loop.run_until_complete(coro_fn(loop)), loop
    finally:
        try:
            loop.budget = loop.iterations + 20000
            pending = [t for t in asyncio.all_tasks(loop) if not t.done()]
            for t in pending:
                t.cancel()
            if pending:
                try:
                    loop.run_until_complete(
                        asyncio.gather(*pending, return_exceptions=True))
                except (LoopStalled, BudgetExceeded, RuntimeError):
                    pass
        finally:
            asyncio.set_event_loop(None)
            loop.close()
