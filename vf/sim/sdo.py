"""CoE SDO server for the simulated terminal (ETG.1000.6 section 5.6.2, see
DESIGN.md appendix B).  Tolerant where the specification leaves room, strict
about toggles and sizes it can check.  Plus a minimal reference client used to
validate the server itself (selftest).

An object dictionary maps (index, subindex) -> bytes.  Complete access on
subindex s returns / replaces the concatenation of all subindexes >= s.
"""
import struct

ABORT_TOGGLE = 0x05030000
ABORT_UNKNOWN_CMD = 0x05040001
ABORT_NO_OBJECT = 0x06020000
ABORT_NO_SUBINDEX = 0x06090011
ABORT_LENGTH = 0x06070010


class SdoServer:
    def __init__(self, objects, prefer_normal=False, delays=None,
                 noise=None, counter_start=1):
        self.objects = dict(objects)
        self.prefer_normal = prefer_normal
        self.delays = list(delays or [0])
        self.noise = list(noise or [])     # per response: send unrelated mail
        self.n = 0
        self.counter = counter_start
        self.upload = None        # [data, pos, toggle]
        self.download = None      # [index, sub, ca, buffer, toggle, size]
        self.log = []             # decoded requests / observations
        self.toggles_up = []
        self.toggles_down = []
        self.errors = []
        self.observations = []

    # ------------------------------------------------------------ framing
    def __call__(self, term, msg):
        length, addr, chan, tc = struct.unpack_from("<HHBB", msg)
        mtype = tc & 0xf
        body = msg[6:6 + length]
        if len(body) < length:
            self.errors.append(f"mailbox length {length} exceeds message")
        if mtype != 3:
            self.log.append(("non-coe", mtype))
            return
        if len(body) < 2:
            self.errors.append("CoE message without header")
            return
        coe, = struct.unpack_from("<H", body)
        service = coe >> 12
        if service == 8:
            self.info(term, body[2:])
            return
        if service != 2:
            self.log.append(("coe-service", service))
            return
        resp = self.sdo(body[2:])
        if resp is None:
            return
        k = self.n
        self.n += 1
        if self.noise and self.noise[k % len(self.noise)]:
            # unrelated mail first (EoE fragment)
            self._post(term, 2, b"\x11\x22\x33\x44", 0)
        service = 2 if resp[0] == 0x80 else 3   # abort = SDO request
        self._post(term, 3, struct.pack("<H", service << 12) + resp,
                   self.delays[k % len(self.delays)])

    def _post(self, term, mtype, body, delay):
        hdr = struct.pack("<HHBB", len(body), 0, 0,
                          mtype | (self.counter << 4))
        self.counter = self.counter % 7 + 1
        term.post_mail(hdr + body, delay)

    # ------------------------------------------------------ SDO information
    def info(self, term, b):
        """SDO information service (ETG.1000.6 5.6.3): "get OD list".  The
        answer goes out in as many fragments as the input mailbox needs, each
        with opcode 2, the "incomplete" bit on all but the last and the
        number of fragments that still follow (16 bits)."""
        if len(b) < 4:
            self.errors.append("short SDO information request")
            return
        opcode = b[0] & 0x7f
        self.log.append(("info", opcode))
        if opcode != 1 or len(b) < 6:
            # error response: opcode 7, abort code
            self._post(term, 3, struct.pack("<HBxHI", 8 << 12, 7, 0,
                                            ABORT_UNKNOWN_CMD), 0)
            return
        listtype, = struct.unpack_from("<H", b, 4)
        data = struct.pack("<H", listtype) + b"".join(
            struct.pack("<H", i) for i in self.od_list(listtype))
        room = self.term_in_size - 12
        chunks = [data[i:i + room] for i in range(0, len(data), room)] \
            or [b""]
        for k, chunk in enumerate(chunks):
            left = len(chunks) - 1 - k
            n = self.n
            self.n += 1
            self._post(term, 3, struct.pack(
                "<HBxH", 8 << 12, 2 | (0x80 if left else 0), left) + chunk,
                self.delays[n % len(self.delays)])

    def od_list(self, listtype):
        if listtype == 0:
            return [len(self.od_indexes)] * 5
        return list(self.od_indexes)

    od_indexes = ()

    def abort(self, index, sub, code):
        self.upload = self.download = None
        self.log.append(("abort", index, sub, hex(code)))
        return struct.pack("<BHBI", 0x80, index, sub, code)

    # ---------------------------------------------------------------- SDO
    def lookup(self, index, sub, ca):
        if ca:
            subs = sorted(s for (i, s) in self.objects if i == index
                          and s >= sub)
            if not subs:
                return None
            return b"".join(self.objects[index, s] for s in subs)
        return self.objects.get((index, sub))

    def sdo(self, b):
        if len(b) < 1:
            self.errors.append("empty SDO message")
            return None
        cmd = b[0]
        ccs = cmd >> 5
        if ccs in (1, 2) or cmd == 0x80:
            if len(b) < 8:
                self.errors.append(f"SDO initiate of {len(b)} bytes")
                return self.abort(0, 0, ABORT_LENGTH)
            index, sub = struct.unpack_from("<HB", b, 1)
        if cmd == 0x80:
            self.upload = self.download = None
            return None
        if ccs == 2:        # upload initiate
            ca = bool(cmd & 0x10)
            self.log.append(("upload", index, sub, ca))
            data = self.lookup(index, sub, ca)
            self.download = None
            if data is None:
                return self.abort(index, sub, ABORT_NO_OBJECT)
            if len(data) <= 4 and not self.prefer_normal and len(data) > 0:
                n = 4 - len(data)
                return struct.pack("<BHB", 0x43 | (n << 2), index, sub) \
                    + data + bytes(n)
            room = self.term_in_size - 16
            first = data[:room]
            self.upload = [data, len(first), 0]
            if len(first) == len(data):
                self.upload = None
            return struct.pack("<BHBI", 0x41, index, sub, len(data)) + first
        if ccs == 3:        # upload segment
            toggle = cmd & 0x10
            self.toggles_up.append(toggle >> 4)
            if self.upload is None:
                return self.abort(0, 0, ABORT_UNKNOWN_CMD)
            data, pos, expect = self.upload
            if toggle != expect:
                return self.abort(0, 0, ABORT_TOGGLE)
            room = self.term_in_size - 9
            chunk = data[pos:pos + room]
            pos += len(chunk)
            last = pos >= len(data)
            self.upload = None if last else [data, pos, expect ^ 0x10]
            rcmd = toggle | (1 if last else 0)
            if len(chunk) < 7:
                rcmd |= (7 - len(chunk)) << 1
                chunk = chunk + bytes(7 - len(chunk))
            return bytes([rcmd]) + chunk
        if ccs == 1:        # download initiate
            ca = bool(cmd & 0x10)
            self.upload = None
            if cmd & 2:     # expedited
                n = (cmd >> 2) & 3 if cmd & 1 else 0
                data = b[4:8 - n]
                self.log.append(("download-exp", index, sub, ca, len(data)))
                self.store(index, sub, ca, data)
                self.download = None
            else:
                size, = struct.unpack_from("<I", b, 4)
                data = bytes(b[8:])
                if cmd & 1 and size and len(data) > size:
                    data = data[:size]
                if not (cmd & 1) or size == 0:
                    self.observations.append(
                        "normal download without complete size")
                self.log.append(("download", index, sub, ca, size,
                                 len(data)))
                self.download = [index, sub, ca, bytearray(data), 0, size]
                self.store(index, sub, ca, data)
            return struct.pack("<BHB4x", 0x60, index, sub)
        if ccs == 0:        # download segment
            toggle = cmd & 0x10
            self.toggles_down.append(toggle >> 4)
            if self.download is None:
                return self.abort(0, 0, ABORT_UNKNOWN_CMD)
            if toggle != self.download[4]:
                return self.abort(self.download[0], self.download[1],
                                  ABORT_TOGGLE)
            data = bytes(b[1:])
            n = (cmd >> 1) & 7
            if len(data) == 7 and n:
                data = data[:7 - n]
            self.log.append(("segment", len(data), bool(cmd & 1)))
            self.download[3] += data
            self.download[4] ^= 0x10
            index, sub, ca, buf = self.download[:4]
            self.store(index, sub, ca, bytes(buf))
            if cmd & 1:
                self.download = None
            return bytes([0x20 | toggle]) + bytes(7)
        self.errors.append(f"unknown SDO command {cmd:#x}")
        return self.abort(0, 0, ABORT_UNKNOWN_CMD)

    def store(self, index, sub, ca, data):
        if ca:
            # complete access: replace all subindexes >= sub by one blob
            for key in [k for k in self.objects if k[0] == index
                        and k[1] >= sub]:
                del self.objects[key]
        self.objects[index, sub] = bytes(data)
        self.stored = (index, sub, ca, bytes(data))


def attach(term, server, out=(0x1000, 128), inn=(0x1080, 128)):
    """configure mailbox sync managers on the terminal model and plug the
    server in"""
    term.mem[0x800:0x808] = struct.pack("<HHBBBB", out[0], out[1], 0x26, 0,
                                        1, 0)
    term.mem[0x808:0x810] = struct.pack("<HHBBBB", inn[0], inn[1], 0x22, 0,
                                        1, 0)
    term.configure_sms_from_registers()
    server.term_in_size = inn[1]
    server.term_out_size = out[1]
    term.mbx_server = server


# ------------------------------------------------------ reference client

class RefClient:
    """a minimal conformant SDO client talking to the model directly
    (no ebpfcat code): validates the server in selftest()"""

    def __init__(self, term, server):
        self.term = term
        self.server = server
        self.counter = 1

    def send(self, body):
        off, size = self.term.mbx_out
        msg = struct.pack("<HHBB", len(body), 0, 0, 3 | (self.counter << 4)) \
            + body
        self.counter = self.counter % 7 + 1
        assert len(msg) <= size, "reference client message too long"
        buf = msg + bytes(size - len(msg))
        assert self.term.write(off, buf)

    def recv(self):
        off, size = self.term.mbx_in
        for _ in range(100):
            st = self.term.read(0x80D, 1)
            if st[0] & 8:
                break
        raw = self.term.read(off, size)
        assert raw is not None, "no mail"
        length, _, _, tc = struct.unpack_from("<HHBB", raw)
        return tc & 0xf, raw[6:6 + length]

    def recv_coe(self):
        while True:
            t, body = self.recv()
            if t == 3:
                return body[2:]

    def upload(self, index, sub, ca=False):
        self.send(struct.pack("<HBHB4x", 2 << 12, 0x50 if ca else 0x40,
                              index, sub))
        r = self.recv_coe()
        if r[0] == 0x80:
            raise KeyError(hex(struct.unpack_from("<I", r, 4)[0]))
        if r[0] & 2:
            n = (r[0] >> 2) & 3
            return bytes(r[4:8 - n])
        size, = struct.unpack_from("<I", r, 4)
        data = bytes(r[8:])
        toggle = 0
        while len(data) < size:
            self.send(struct.pack("<HB7x", 2 << 12, 0x60 | toggle))
            r = self.recv_coe()
            assert r[0] & 0x10 == toggle
            chunk = r[1:]
            n = (r[0] >> 1) & 7
            if len(chunk) == 7 and n:
                chunk = chunk[:7 - n]
            data += chunk
            toggle ^= 0x10
            if r[0] & 1:
                break
        return data[:size]

    def download(self, index, sub, data, ca=False):
        off, size = self.term.mbx_out
        if len(data) <= 4 and len(data) > 0:
            n = 4 - len(data)
            self.send(struct.pack("<HBHB", 2 << 12,
                                  0x23 | (n << 2) | (0x10 if ca else 0),
                                  index, sub) + data + bytes(n))
            r = self.recv_coe()
            assert r[0] == 0x60
            return
        room = size - 16
        first = data[:room]
        self.send(struct.pack("<HBHBI", 2 << 12, 0x21 | (0x10 if ca else 0),
                              index, sub, len(data)) + first)
        r = self.recv_coe()
        assert r[0] == 0x60, r
        pos = len(first)
        toggle = 0
        while pos < len(data):
            chunk = data[pos:pos + size - 9]
            pos += len(chunk)
            last = pos >= len(data)
            cmd = toggle | (1 if last else 0)
            if len(chunk) < 7:
                cmd |= (7 - len(chunk)) << 1
                chunk += bytes(7 - len(chunk))
            self.send(struct.pack("<HB", 2 << 12, cmd) + chunk)
            r = self.recv_coe()
            assert r[0] == 0x20 | toggle, r
            toggle ^= 0x10


def selftest():
    """reference client against the server model over many sizes"""
    from .bus import TerminalModel
    for out_sz, in_sz in ((24, 24), (40, 32), (128, 128), (64, 200)):
        for n in list(range(0, 20)) + [in_sz - 17, in_sz - 16, in_sz - 15,
                                       2 * in_sz, 3 * in_sz + 7, 300]:
            if n < 0:
                continue
            value = bytes((7 * i + n) & 0xff for i in range(n))
            for prefer in (False, True):
                term = TerminalModel(station=1)
                srv = SdoServer({(0x2000, 1): value, (0x2000, 2): b"zz"},
                                prefer_normal=prefer, delays=[0, 2, 1],
                                noise=[0, 1])
                attach(term, srv, (0x1000, out_sz), (0x1100, in_sz))
                cl = RefClient(term, srv)
                got = cl.upload(0x2000, 1)
                assert got == value, (n, out_sz, in_sz, got, value)
                new = bytes((3 * i + 1) & 0xff for i in range(n))
                if n:
                    cl.download(0x2001, 5, new)
                    assert srv.objects[0x2001, 5] == new, (n, out_sz)
                    assert cl.upload(0x2001, 5) == new
                assert cl.upload(0x2000, 1, ca=True) == value + b"zz"
                assert not srv.errors, srv.errors
