"""C12 Every datagram request gets exactly its own response

domain : workloads of 1-12 (or 14-36 small) concurrent tasks calling the real
         EtherCat.roundtrip with tagged payloads (sizes up to and beyond the
         frame limit), sleep(0) prefixes, cancellation at generated instants;
         a bus that answers each frame after a generated latency with a keyed
         transformation of every datagram, working counter 0/1 per request,
         frame loss, duplication, unknown frames.
oracle : invariant over the history (frames handed to the transport, outcome
         of every awaitable).
"""
import asyncio
import struct

from hypothesis import strategies as st

import ebpfcat.ethercat as ethercat
from ebpfcat.ethercat import ECCmd, EtherCat, EtherCatError

from ..sim import frames
from ..sim import loop as simloop
from ..runner import HarnessError

ID = "C12"
LEVEL = "fault_enumeration"
TECHNIQUE = ("property-based testing over generated workloads, schedules and "
             "fault plans: the real send loop runs on a virtual-time event "
             "loop against a simulated bus; invariant over the history")
RULE = ("Hypothesis draws (per task: payload size, number of sleep(0) before "
        "submitting, optional cancellation instant, working counter; per "
        "frame: latency, loss, duplication; unknown frames); non-trivial = at "
        "least 2 requests shared a frame and at least one fault (wkc 0, loss, "
        "duplicate, unknown frame, oversize) or cancellation occurred; "
        "distinct by (frame grouping sizes, fault kinds, cancellation count); "
        "plus an enumerated family of late duplicates of answered frames "
        "while a frame with a related index is outstanding")
ASSUMPTIONS = [
    "asyncio's FIFO order of ready callbacks is kept; orderings come from "
    "task start order, sleep(0) counts, latencies and cancellation instants",
    "a request counts from the moment roundtrip() was called: cancelled "
    "afterwards or not, it is sent exactly once; a task cancelled before it "
    "called roundtrip() sends nothing",
    "more than 1000 ensure_future calls of the send loop within one event "
    "loop iteration are taken as a positive stall (busy loop) detection",
    "the bus answers with data = bytes of the request XOR 0x5a, so every "
    "position is recognisable",
]
EXAMPLES = {"quick": 120, "thorough": 10000}
MIN_NONTRIVIAL = {"quick": 150, "thorough": 3000}

MAXDATA = 1500 - 16 - 12


def strategy(tier):
    task = st.fixed_dictionaries({
        "size": st.one_of(st.integers(2, 64), st.integers(2, 1472),
                          st.sampled_from([1472, 1471, 736, 730, 490, 2]),
                          st.integers(2, 200), st.integers(2, 800),
                          st.sampled_from([1473, 1480, 1600])),
        "sleeps": st.integers(0, 4),
        "cancel_at": st.none() | st.none() | st.integers(0, 12),
        "wkc": st.sampled_from([1, 1, 1, 0, 2]),
    })
    frame = st.fixed_dictionaries({
        "latency": st.sampled_from([0, 0, 1, 2, 5]),
        "lose": st.sampled_from([False] * 6 + [True]),
        "dup": st.sampled_from([False] * 5 + [True]),
    })
    small = st.fixed_dictionaries({
        "size": st.integers(2, 40),
        "sleeps": st.sampled_from([0, 0, 0, 1]),
        "cancel_at": st.sampled_from([None] * 6 + [1, 2]),
        "wkc": st.sampled_from([1, 1, 1, 0]),
    })
    return st.fixed_dictionaries({
        # the second family: more small requests at once than a frame has
        # room for datagrams
        "tasks": st.lists(task, min_size=1, max_size=12)
        | st.lists(small, min_size=14, max_size=36),
        "frames": st.lists(frame, min_size=1, max_size=8),
        "unknown": st.lists(st.integers(0, 10), max_size=2),
        # frame indexes the master's random generator draws first: small, so
        # that it draws indexes that are still in use
        "indexes": st.lists(st.integers(0, 2), max_size=12),
    })


def enumerate_cases(tier):
    """a late duplicate of an answered frame arrives while a later frame is
    outstanding whose (random) index differs from the old one by a power of
    two or by the size of a 16 bit range: it is not the later frame's answer"""
    for stride in (63536, 65536, 1 << 24, 256, 32768, 1 << 20, 1 << 29):
        for dup_latency in (2, 5):
            for sleeps in (2, 3, 5):
                for size in (10, 12):
                    yield {
                        "tasks": [{"size": 10, "sleeps": 0, "cancel_at": None,
                                   "wkc": 1},
                                  {"size": size, "sleeps": sleeps,
                                   "cancel_at": None, "wkc": 1}],
                        "frames": [{"latency": 0, "lose": False, "dup": True,
                                    "dup_latency": dup_latency},
                                   {"latency": 10, "lose": False,
                                    "dup": False}],
                        "unknown": [],
                        "indexes": [7000, 7000 + stride]}


class StallDetected(BaseException):
    pass


def payload(tag, size):
    return struct.pack("<H", tag) + bytes(
        (tag * 7 + 13 * i) & 0xff for i in range(size - 2))


def xform(data):
    return bytes(b ^ 0x5a for b in data)


class Responder:
    """transport stand-in: answers frames according to the plan"""

    def __init__(self, loop, case, proto):
        self.loop = loop
        self.case = case
        self.proto = proto
        self.sent = []        # (frame bytes, [tags])
        self._sock = type("S", (), {"bind": lambda self, a: None})()

    def sendto(self, data, addr=None):
        data = bytes(data)
        no = len(self.sent)
        try:
            length, ftype, dgs, end = frames.parse(data)
        except frames.FrameError as e:
            self.sent.append((data, None))
            return
        tags = [struct.unpack("<H", d.data[:2])[0] for d in dgs[1:]
                if d.length >= 2]
        self.sent.append((data, tags))
        plan = self.case["frames"][no % len(self.case["frames"])]
        if plan["lose"]:
            return
        out = bytearray(data)
        for d in dgs[1:]:
            tag = struct.unpack("<H", d.data[:2])[0] if d.length >= 2 else None
            wkc = self.case["tasks"][tag]["wkc"] \
                if tag is not None and tag < len(self.case["tasks"]) else 1
            out[d.data_pos:d.wkc_pos] = xform(d.data)
            out[d.wkc_pos:d.wkc_pos + 2] = struct.pack("<H", wkc)
        for copy in range(2 if plan["dup"] else 1):
            if copy and plan.get("dup_latency"):
                # the duplicate comes (much) later than the frame itself
                self.loop.call_later(plan["dup_latency"] / 1000,
                                     self.deliver, bytes(out))
            elif plan["latency"]:
                self.loop.call_later(plan["latency"] / 1000, self.deliver,
                                     bytes(out))
            else:
                self.loop.call_soon(self.deliver, bytes(out))

    def deliver(self, data):
        self.proto.datagram_received(data, None)

    def close(self):
        pass


def run_case(case):
    tasks = case["tasks"]
    n = len(tasks)
    hist = {"submitted": [], "outcome": {}, "stall": False}
    counter = {"n": 0, "iter": -1}
    real_ensure = ethercat.ensure_future
    real_packet = ethercat.Packet
    real_randint = ethercat.randint
    state = {"index": 2000}

    drawn = list(case.get("indexes", []))

    def my_randint(a, b):
        # scripted draws, brought into the range the library asks for
        if drawn:
            d = drawn.pop(0)
            v = 5000 + d if d < 3 else d
        else:
            state["index"] += 1
            v = state["index"]
        return a + (v - a) % (b - a + 1)

    async def main(loop):
        def counting_ensure(coro):
            if counter["iter"] != loop.iterations:
                counter["iter"] = loop.iterations
                counter["n"] = 0
            counter["n"] += 1
            if counter["n"] > 1000:
                hist["stall"] = True
                coro.close()
                raise StallDetected("send loop spins without awaiting")
            return real_ensure(coro)
        ethercat.ensure_future = counting_ensure

        class CountingPacket(real_packet):
            def append(self, *a, **kw):
                if counter["iter"] != loop.iterations:
                    counter["iter"] = loop.iterations
                    counter["n"] = 0
                counter["n"] += 1
                if counter["n"] > 1000:
                    hist["stall"] = True
                    raise StallDetected("send loop spins without awaiting")
                return super().append(*a, **kw)
        ethercat.Packet = CountingPacket
        ec = EtherCat("verif")
        ec.send_queue = asyncio.Queue()
        tr = Responder(loop, case, ec)
        ec.connection_made(tr)

        async def worker(tag):
            spec = tasks[tag]
            for _ in range(spec["sleeps"]):
                await asyncio.sleep(0)
            hist["submitted"].append(tag)
            return await ec.roundtrip(ECCmd.LRW, 0, 0,
                                      data=payload(tag, spec["size"]))

        ts = [asyncio.ensure_future(worker(i)) for i in range(n)]
        # cancellations and unknown frames at generated instants
        for step in range(14):
            for i, spec in enumerate(tasks):
                if spec["cancel_at"] == step and not ts[i].done():
                    ts[i].cancel()
                    hist.setdefault("cancelled", []).append(i)
            for u in case["unknown"]:
                if u == step:
                    fr = frames.build([(0, 0, 999999 + step, b"\0\0", 0)])
                    ec.datagram_received(fr, None)
            await asyncio.sleep(0)
        await asyncio.sleep(1.0)      # virtual time: every latency is over
        for i, t in enumerate(ts):
            if not t.done():
                hist["outcome"][i] = ("pending", None)
            elif t.cancelled():
                hist["outcome"][i] = ("cancelled", None)
            elif t.exception() is not None:
                hist["outcome"][i] = ("raised", t.exception())
            else:
                hist["outcome"][i] = ("result", t.result())
        return tr

    tr = None
    try:
        ethercat.randint = my_randint
        tr, loop = simloop.run(main, budget=100000)
    except StallDetected:
        hist["stall"] = True
    except simloop.BudgetExceeded:
        return dict(ok=True, nontrivial=False, classes=["inconclusive"])
    finally:
        ethercat.ensure_future = real_ensure
        ethercat.Packet = real_packet
        ethercat.randint = real_randint

    oversize = [i for i, s in enumerate(tasks) if s["size"] > MAXDATA]
    facts = []
    if oversize:
        facts.append("oversize-request")
    cancelled = hist.get("cancelled", [])
    classes = [f"tasks={min(n, 12)}" if n <= 12 else "tasks>12"]
    if oversize:
        classes.append("oversize")
    if cancelled:
        classes.append("cancellation")

    def fail(what):
        return dict(ok=False, nontrivial=True, classes=classes, facts=facts,
                    what=f"{what}; tasks={[(s['size'], s['sleeps'], s['cancel_at'], s['wkc']) for s in tasks]}"
                    f" frames={case['frames']} unknown={case['unknown']}")

    if hist["stall"]:
        return fail("the send loop spins without ever awaiting (stall) "
                    f"after an oversize request {oversize}")
    if tr is None:
        raise HarnessError("no transport")
    # ---- frames: every tag at most once, in submission order
    seen = []
    grouping = []
    for data, tags in tr.sent:
        if tags is None:
            return fail("a frame handed to the transport does not parse")
        if len(data) > 1500:
            return fail(f"frame of {len(data)} bytes sent")
        seen += tags
        grouping.append(len(tags))
    if len(set(seen)) != len(seen):
        return fail(f"a request was sent twice: tags in frames {seen}")
    order = [t for t in hist["submitted"] if t in seen]
    if seen != order:
        return fail(f"requests sent in order {seen}, submitted in order "
                    f"{hist['submitted']}")
    frame_of = {}
    for fno, (data, tags) in enumerate(tr.sent):
        for t in tags:
            frame_of[t] = fno
    faults = set()
    cancel_with_wkc0_neighbour = False
    for fno, (data, tags) in enumerate(tr.sent):
        if any(t in cancelled and tasks[t]["wkc"] == 0 for t in tags) \
                and len(tags) > 1:
            cancel_with_wkc0_neighbour = True
    if cancel_with_wkc0_neighbour:
        facts.append("cancelled-request-with-wkc0-shares-frame")
    for i, spec in enumerate(tasks):
        kind, val = hist["outcome"].get(i, ("missing", None))
        was_cancelled = i in cancelled
        if i in oversize:
            faults.add("oversize")
            if kind == "raised" or (kind == "cancelled" and was_cancelled):
                continue
            return fail(f"oversize request {i} ({spec['size']} bytes) ended "
                        f"as {kind}, expected an exception to its caller")
        if i in hist["submitted"] and i not in frame_of:
            # roundtrip() was called: cancelled later or not, it is sent
            return fail(f"request {i} was never sent (outcome {kind}"
                        f"{', cancelled after it was submitted' if was_cancelled else ''})")
        if kind == "cancelled":
            if not was_cancelled:
                return fail(f"request {i} ended cancelled but nobody "
                            f"cancelled it")
            continue
        if i not in frame_of:
            if kind == "pending" and was_cancelled:
                continue
            return fail(f"request {i} was never sent (outcome {kind})")
        plan = case["frames"][frame_of[i] % len(case["frames"])]
        if plan["dup"]:
            faults.add("dup")
        if plan["lose"]:
            faults.add("loss")
            if kind != "pending":
                return fail(f"request {i} was in lost frame "
                            f"{frame_of[i]} but ended as {kind}: {val!r}")
            continue
        if spec["wkc"] == 0:
            faults.add("wkc0")
            if kind != "raised" or not isinstance(val, EtherCatError):
                return fail(f"request {i} came back unprocessed (wkc 0) "
                            f"but ended as {kind}: {val!r}")
            continue
        if kind != "result":
            return fail(f"request {i} (frame {frame_of[i]}, wkc "
                        f"{spec['wkc']}) ended as {kind}: {val!r}, expected "
                        f"its response")
        if bytes(val) != xform(payload(i, spec["size"])):
            return fail(f"request {i} got {bytes(val)[:8].hex()}..., not "
                        f"the bytes at its own position")
    if case["unknown"]:
        faults.add("unknown")
    shared = any(g >= 2 for g in grouping)
    classes += [f"fault={f}" for f in sorted(faults)]
    classes.append(f"frames={min(len(grouping), 6)}")
    if shared:
        classes.append("shared-frame")
    return dict(ok=True,
                nontrivial=shared and bool(faults or cancelled),
                key=repr((grouping, sorted(faults), len(cancelled))),
                classes=classes,
                summary={"grouping": grouping, "faults": sorted(faults),
                         "cancelled": cancelled})


KNOWN = {}
