#!/venv/bin/python
"""tools/mut.py FILE OLD NEW ID [ID...] [--tests]: apply a one-string mutant to
/repo/ebpfcat/FILE, run ./check for each ID, always revert.  Developer tool for
sensitivity testing; not a registered check."""
import subprocess, sys
args = sys.argv[1:]
tests = "--tests" in args
args = [a for a in args if a != "--tests"]
f, old, new, *ids = args
path = f"/repo/ebpfcat/{f}"
src = open(path).read()
assert src.count(old) >= 1, "old string not found"
if src.count(old) > 1:
    print(f"note: {src.count(old)} occurrences, replacing first")
try:
    open(path, "w").write(src.replace(old, new, 1))
    if tests:
        r = subprocess.run("cd /repo && /venv/bin/python -m pytest -q -p no:cacheprovider 2>&1 | tail -1", shell=True, capture_output=True, text=True)
        print("TESTS:", r.stdout.strip().splitlines()[-1:])
    for i in ids:
        r = subprocess.run(["/verif/check", i], capture_output=True, text=True)
        lines = [l for l in r.stdout.splitlines() if "VIOLATION" in l or "violation:" in l or "HARNESS" in l]
        print(f"{i}: exit={r.returncode}", *lines[:3], sep="\n   ")
        if r.returncode == 2:
            print(r.stdout[-1500:], r.stderr[-1500:])
finally:
    open(path, "w").write(src)
    subprocess.run("git -C /repo status --short", shell=True)
