#!/usr/bin/env python3
"""tools/mkseedtask.py V1 V2 [ID ...]: (re)create the scratch worktrees
/tmp/seed/<ID> of /repo's HEAD and write the task text for a seeding sub-agent
(variants V1, V2) into /tmp/seed/<ID>/_seed/TASK.md.  The agent gets the
property text and its worktree only - nothing from /verif.  Developer tool."""
import json
import os
import subprocess
import sys

EMPHASIS = {
    "MN": """is as hard as possible to detect for an automated test generator that draws random inputs and histories and compares against a reference model. Six earlier rounds already seeded: obvious slips; subtle slips in boundary values, carried-over state and error paths; slips in callers, helpers and other entry points; slips that need two rare conditions at once or show only to a second observer; slips in interactions with other features, re-use after restart and class-level state; slips that need large sizes, deep nesting, long histories or the full width of a field. This round, look at AFTERMATH, RECIPIENTS and ORDER: an effect that is only observable LATER or ELSEWHERE - the operation itself returns the right answer, but leaves something behind (a stale entry, a lock, a register, a counter, a buffer not reset, a resource not released) that makes a LATER, different operation or a different object go wrong; an operation that was refused, failed, timed out or was cancelled and must leave no trace but does; the right value delivered to the WRONG RECIPIENT (another variable, terminal, task, channel, group, process) or at the wrong moment (one cycle early or late); the ORDER of effects rather than their content (two writes swapped, a flag set before the data it guards, an acknowledgement before the action); an identical operation done twice in a row (idempotence), or the first operation after a long idle period or after nothing happened at all (empty input, zero elements, no terminals, no change). Every single call should still return plausible results. Do not make things raise or hang.""",
    "KL": """is as hard as possible to detect for an automated test generator that draws random inputs and histories of moderate size and compares against a reference model. Five earlier rounds already seeded: obvious slips; subtle slips in boundary values, carried-over state and error paths; slips in callers, helpers and other entry points; slips that need two rare conditions at once or show only to a second observer; slips in interactions with other features, re-use after restart and class-level state. This round, look at SIZE, DEPTH and FIELD WIDTHS: a violation that needs a LARGE, DEEP or LONG input - an expression or condition nested four or more levels deep or needing six or more live temporaries (register pressure, spilled registers, stack temporaries), a history of thirty or more operations, ten or more terminals, devices, datagrams or variables, a frame or mailbox message close to its maximum size, values that need all 64 (or all 16 / 32) bits, a counter after several wrap-arounds, the 17th, 65th, 256th or 65536th element of something; and numeric field widths and masks (a field one bit too narrow, a mask that drops the top bit, a length computed in the wrong unit, an index that wraps). Inputs of small or moderate size must behave exactly as before. Every single call should still return plausible results. Do not make things raise or hang.""",
    "IJ": """is as hard as possible to detect for an automated test generator that draws random inputs and histories and compares against a reference model. Four earlier rounds already seeded: obvious slips; subtle slips in boundary values, carried-over state and error paths; slips in callers, helpers and other entry points; slips that need two rare conditions at once or show only to a second observer. This round, look at INTERACTIONS and LIMITS instead: the property's mechanism combined with another feature the statement also quantifies over but that is rarely combined with it (another variable kind or format, another terminal or device type shipped with the library, inheritance or several instances of one class, non-default constructor parameters, re-use of an object after close / cancel / restart, class-level versus instance-level state); tables and constants of the library (struct format letters, enum values, bit masks, register addresses, sizes) that are consulted only for a subset of the inputs; behaviour at a documented maximum (the last slot, the largest size, the highest index, a counter wrapping round); and the second or third object of a kind where the first one behaves correctly. Every single call should still return plausible results. Do not make things raise or hang.""",
}


def sh(cmd):
    return subprocess.run(cmd, shell=True, capture_output=True, text=True)


def main():
    v1, v2 = sys.argv[1:3]
    ids = sys.argv[3:] or [f"C{i:02d}" for i in range(1, 31)]
    props = {json.loads(l)["id"]: json.loads(l)
             for l in open("/verif/properties.jsonl")}
    os.makedirs("/tmp/seed", exist_ok=True)
    for pid in ids:
        w = f"/tmp/seed/{pid}"
        sh(f"git -C /repo worktree remove --force {w}")
        sh(f"rm -rf {w}")
        r = sh(f"git -C /repo worktree add --detach {w} HEAD")
        assert os.path.isdir(w), r.stderr
        os.makedirs(f"{w}/_seed", exist_ok=True)
        p = props[pid]
        a = p.get("anchors") or {}
        anchors = ", ".join(a.get("files", [])) + " -- " + "; ".join(
            f"{m.get('name')} ({m.get('where')})"
            for m in a.get("mechanism", []) + a.get("state", []))
        text = f"""You are helping to evaluate a verification suite by seeding realistic bugs into a scratch copy of a codebase.

Work ONLY inside the git worktree at {w} (a checkout of the Python project tecki/ebpfcat: a pure-Python EtherCAT master that generates eBPF/XDP bytecode from a Python expression DSL). Do NOT read or touch /repo, /verif or any directory outside {w}. There is no network. Python is /venv/bin/python.

PROPERTY (it is supposed to hold for this codebase):
  Title: {p['title']}
  Statement: {p['statement']}
  Quantified over: {p['quantifier']['text']}
  Code it is anchored in: {anchors}

TASK: design TWO independent alternative changes (variant {v1} and variant {v2}) to the library source under {w}/ebpfcat/ (library code, not the tests), each of which
  * breaks the property above - literally one of the clauses of the statement, for inputs / histories / schedules inside the quantified domain - so that a careful reader of the statement would agree it is violated,
  * still imports and passes the existing test suite exactly as before: `cd {w} && /venv/bin/python -m pytest -q -p no:cacheprovider 2>&1 | tail -3` must end with the same summary as on the unchanged tree, namely "5 failed, 44 passed, 1 skipped" (those 5 failures are pre-existing and unrelated),
  * is realistic (a refactoring, clean-up or optimisation slip) and small (1-10 changed lines),
  * {EMPHASIS[v1 + v2]}
  * The two variants must be in different functions or classes.
Work on one variant at a time (apply {v1}, test, save, revert with `git -C {w} checkout -- ebpfcat`; then {v2}).

DELIVERABLES, all inside {w}/_seed/ (the directory exists):
  {v1}.diff, {v2}.diff      : `git -C {w} diff` with only that variant applied. Verify each with `git -C {w} apply --check _seed/{v1}.diff` on the reverted tree.
  {v1}_demo.py, {v2}_demo.py: standalone scripts, run as `cd {w} && /venv/bin/python _seed/{v1}_demo.py`, that demonstrate the broken behaviour against the code in {w} (insert the worktree root at the front of sys.path so that the worktree's ebpfcat is imported, not an installed copy): print what the property requires and what is observed; exit status 1 when the violation is visible (variant applied), 0 on the unchanged tree. They may use mocks / simulated terminals instead of hardware. eBPF programs CAN be loaded and test-run in this sandbox (you are root; see ebpfcat/ebpf_test.py class KernelTests for how), but a demo that inspects generated opcodes or simulates is fine too.
  meta.json           : {{"{v1}": {{"summary": "...", "files": ["..."], "trigger": "what specific input / schedule / configuration is needed"}}, "{v2}": {{...}}}}
Leave the worktree with NO variant applied at the end (`git -C {w} checkout -- ebpfcat`), but keep _seed/. Do not commit anything.

Your final answer: three lines per variant (what was changed, why the tests still pass, what triggers the violation), and confirm both demos behave as required (exit 1 with the variant, exit 0 without).
"""
        open(f"{w}/_seed/TASK.md", "w").write(text)
    sh("git -C /repo worktree prune")
    print("prepared", len(ids))


if __name__ == "__main__":
    main()
