"""Independent EtherCAT frame parser / serialiser (ETG.1000.4).

Shares nothing with ebpfcat.ethercat.Packet.  A "frame" here is the Ethernet
payload (what ebpfcat hands to sendto on an AF_PACKET SOCK_DGRAM socket):

  2 bytes  EtherCAT header: bits 0-10 length of the datagram area,
                            bit 11 reserved, bits 12-15 type (1 = datagrams)
  then datagrams:
  1 cmd, 1 idx, 4 address (ADP, ADO  or 32 bit logical), 2 len|flags
  (bits 0-10 length, bit 14 circulating, bit 15 more), 2 irq, data, 2 wkc
"""


class FrameError(Exception):
    pass


def u16(b, pos):
    return b[pos] | (b[pos + 1] << 8)


def u32(b, pos):
    return b[pos] | (b[pos + 1] << 8) | (b[pos + 2] << 16) | (b[pos + 3] << 24)


class Datagram:
    __slots__ = ("cmd", "idx", "addr", "length", "more", "circ", "reserved",
                 "irq", "hdr_pos", "data_pos", "data", "wkc_pos", "wkc")

    @property
    def adp(self):
        return self.addr & 0xffff

    @property
    def ado(self):
        return self.addr >> 16

    def as_dict(self):
        return dict(cmd=self.cmd, idx=self.idx, addr=self.addr,
                    length=self.length, more=self.more, irq=self.irq,
                    data_pos=self.data_pos, wkc=self.wkc)


def parse(frame):
    """parse the Ethernet payload, return (length, type, [Datagram], end)

    `end` is the offset one past the last datagram.  Raises FrameError if
    the chain is broken."""
    frame = bytes(frame)
    if len(frame) < 2:
        raise FrameError("shorter than the EtherCAT header")
    hdr = u16(frame, 0)
    length = hdr & 0x7ff
    ftype = hdr >> 12
    pos = 2
    dgrams = []
    while True:
        if pos + 10 > len(frame):
            raise FrameError(f"datagram header at {pos} beyond frame end")
        d = Datagram()
        d.hdr_pos = pos
        d.cmd = frame[pos]
        d.idx = frame[pos + 1]
        d.addr = u32(frame, pos + 2)
        lf = u16(frame, pos + 6)
        d.length = lf & 0x7ff
        d.reserved = (lf >> 11) & 7
        d.circ = bool(lf & 0x4000)
        d.more = bool(lf & 0x8000)
        d.irq = u16(frame, pos + 8)
        d.data_pos = pos + 10
        d.wkc_pos = d.data_pos + d.length
        if d.wkc_pos + 2 > len(frame):
            raise FrameError(f"datagram at {pos} runs beyond frame end")
        d.data = frame[d.data_pos:d.wkc_pos]
        d.wkc = u16(frame, d.wkc_pos)
        dgrams.append(d)
        pos = d.wkc_pos + 2
        if not d.more:
            break
    return length, ftype, dgrams, pos


def build(dgrams, pad=True):
    """dgrams: list of (cmd, idx, addr32, data, wkc[, irq])"""
    out = bytearray()
    for i, dg in enumerate(dgrams):
        cmd, idx, addr, data, wkc = dg[:5]
        irq = dg[5] if len(dg) > 5 else 0
        lf = len(data) | (0x8000 if i < len(dgrams) - 1 else 0)
        out += bytes([cmd & 0xff, idx & 0xff])
        out += (addr & 0xffffffff).to_bytes(4, "little")
        out += lf.to_bytes(2, "little") + irq.to_bytes(2, "little")
        out += bytes(data) + (wkc & 0xffff).to_bytes(2, "little")
    hdr = (len(out) | 0x1000).to_bytes(2, "little")
    out = bytearray(hdr) + out
    if pad and len(out) < 46:
        out += b"\0" * (46 - len(out))
    return bytes(out)
