"""C18 Sync groups give each terminal disjoint, exactly-sized process data

domain : 1-4 sync groups (slow and fast) on one master (which may have
         allocated up to 40 groups before), each over 1-8
         terminals with input/output sizes 0..200 (a few large ones so that
         some groups overflow the frame), read-write flags (per device: a
         terminal may be used by several devices of the group), FMMU or direct
         addressing, and Aerotech-style terminals with declared in_size /
         out_size.
oracle : the group's frame is parsed by the independent parser: every
         terminal region [pdo_assign, +size) lies inside the data of the
         datagram that transports it (FPRD/FPWR to the terminal's station
         address and sync-manager offset, or LRD/LWR for FMMU terminals),
         regions are pairwise disjoint, the FMMU logical address maps to that
         same region, logical windows of different groups are disjoint,
         oversize groups raise.
"""
from hypothesis import strategies as st

from ebpfcat.ebpfcat import (
    Device, EBPFTerminal, FastEtherCat, FastSyncGroup, SyncGroup,
    SyncManager)
from ebpfcat.ethercat import ECCmd
from ebpfcat.terminals import AerotechBase

from ..sim import frames
from ..vm import kernel

ID = "C18"
LEVEL = "exploration"
TECHNIQUE = ("property-based testing of SyncGroupBase.allocate with an "
             "independent frame parser as oracle")
RULE = ("Hypothesis draws (groups of terminals with sizes, flags, addressing "
        "mode, kind); non-trivial = a group with >= 2 terminals that mixes "
        "addressing modes or directions, or a second group, or an overflow; "
        "distinct by (per group: kind, per terminal (mode, in>0, out>0, rw))")
ASSUMPTIONS = [
    "a terminal's input region exists iff its input size is > 0, its output "
    "region iff the group writes it and its output size is > 0",
    "for Aerotech-style terminals the region sizes are the declared in_size / "
    "out_size",
    "fast groups are built with real kernel maps when bpf(2) is available",
]
EXAMPLES = {"quick": 150, "thorough": 10000}
MIN_NONTRIVIAL = {"quick": 400, "thorough": 5000}


def strategy(tier):
    term = st.fixed_dictionaries({
        "in": st.one_of(st.just(0), st.integers(1, 12), st.integers(1, 200),
                        st.sampled_from([700, 1400])),
        "out": st.one_of(st.just(0), st.integers(1, 12), st.integers(1, 200),
                         st.sampled_from([700])),
        "rw": st.booleans(),
        "mode": st.sampled_from(["fmmu", "fmmu", "direct", "aerotech"]),
        "decl": st.tuples(st.integers(1, 60), st.integers(1, 60)),
        # other devices of the group using this terminal: (writes it,
        # listed before the main device)
        "also": st.just([]) | st.just([]) | st.lists(
            st.tuples(st.booleans(), st.booleans()), min_size=1, max_size=2),
    })
    group = st.fixed_dictionaries({
        "kind": st.sampled_from(["slow", "slow", "fast"]),
        "terms": st.lists(term, min_size=1, max_size=8),
    })
    return st.fixed_dictionaries({
        "groups": st.lists(group, min_size=1, max_size=4),
        # stretch one input region so that the first group's frame lands on
        # this size (around the 1500 byte limit)
        "fit": st.none() | st.none() | st.sampled_from(
            [1497, 1498, 1499, 1500, 1501, 1502, 1503, 1504]),
        # number of groups the master allocated before these
        "earlier": st.sampled_from([0, 0, 0, 0, 12, 14, 15, 16, 17, 31, 40]),
    }).map(fit_first_group)


def rw_of(spec):
    return bool(spec["rw"] or any(rw for rw, before in spec.get("also", [])))


class _Decl:
    def __init__(self, spec):
        self.in_size, self.out_size = spec["decl"]


def fit_first_group(case):
    target = case.get("fit")
    if target is None:
        return case
    specs = case["groups"][0]["terms"]
    need = minimal_size([(_Decl(s), s) for s in specs])
    if need >= 10**6:
        return case
    for s in specs:
        if s["mode"] in ("fmmu", "direct") and s["in"] \
                and s["in"] + target - need >= 1:
            s["in"] += target - need
            break
    return case


class Holder(Device):
    def __init__(self, terms):
        self.terms = terms

    def get_terminals(self):
        return dict(self.terms)


class Aero(AerotechBase):
    pass


def run_case(case):
    classes = []
    keyparts = []
    with kernel.tracking():
        ec = FastEtherCat("verif")
        windows = []
        pos = 100
        allgroups = []
        # earlier (small) groups of the same master: they hold logical
        # windows of their own
        tiny = {"kind": "slow", "terms": [
            {"in": 2, "out": 2, "rw": True, "mode": "fmmu", "decl": [1, 1],
             "also": []}]}
        groups = [tiny] * case.get("earlier", 0) + list(case["groups"])
        if case.get("earlier"):
            classes.append(f"earlier-groups={case['earlier']}")
        for gi, g in enumerate(groups):
            terms = []
            for ti, spec in enumerate(g["terms"]):
                pos += 1
                if spec["mode"] == "aerotech":
                    t = Aero(ec)
                    t.in_size, t.out_size = spec["decl"]
                else:
                    t = EBPFTerminal(ec)
                    t.use_fmmu = spec["mode"] == "fmmu"
                t.name = f"G{gi}T{ti}"
                t.position = pos
                t.pdo_in_sz, t.pdo_out_sz = spec["in"], spec["out"]
                t.pdo_in_off = 0x1100 + 0x10 * ti
                t.pdo_out_off = 0x1800 + 0x10 * ti
                terms.append((t, spec))
            holder = Holder([(t, s["rw"]) for t, s in terms])
            # further devices that use some of the terminals too, before or
            # after the main one: a terminal is written if any device does
            devices = [holder]
            for t, s in terms:
                for also_rw, before in s.get("also", []):
                    d = Holder([(t, also_rw)])
                    devices.insert(0 if before else len(devices), d)
            if len(devices) > 1:
                classes.append("shared-terminal")
            cls = FastSyncGroup if g["kind"] == "fast" else SyncGroup
            expected_size = 16
            try:
                sg = cls(ec, devices)
                sg.allocate()
            except OverflowError:
                classes.append("overflow")
                keyparts.append(("overflow", g["kind"]))
                # must really be too big: compute the minimal frame size
                need = minimal_size(terms)
                if need <= 1500:
                    return fail(case, classes, f"group {gi} rejected although "
                                f"it needs only {need} bytes")
                continue
            except Exception as e:
                return fail(case, classes, f"group {gi}: allocate raised "
                            f"{type(e).__name__}: {e}")
            need = minimal_size(terms)
            if need > 1500:
                return fail(case, classes, f"group {gi} of {need} bytes was "
                            f"accepted")
            frame = sg.packet.assemble(7)
            if not sg.packet.data:
                # no process data at all: nothing to place
                if any(sg.pdo_assign.get(t) for t, _ in terms):
                    return fail(case, classes, f"group {gi}: regions "
                                f"assigned but the frame has no datagram")
                classes.append("empty-group")
                continue
            try:
                length, ftype, dgs, end = frames.parse(frame)
            except frames.FrameError as e:
                return fail(case, classes, f"group {gi}: frame does not "
                            f"parse: {e}")
            if len(frame) > 1500:
                return fail(case, classes, f"frame of {len(frame)} bytes")
            regions = []
            gkey = [g["kind"]]
            for t, spec in terms:
                aero = spec["mode"] == "aerotech"
                want = {}
                in_size = t.in_size if aero else spec["in"]
                out_size = t.out_size if aero else spec["out"]
                if spec["in"] > 0:
                    want[SyncManager.IN] = in_size
                if rw_of(spec) and spec["out"] > 0:
                    want[SyncManager.OUT] = out_size
                assign = sg.pdo_assign.get(t, {})
                if set(assign) != set(want):
                    return fail(case, classes, f"{t.name}: regions for "
                                f"{sorted(s.name for s in assign)}, expected "
                                f"{sorted(s.name for s in want)}")
                gkey.append((spec["mode"], spec["in"] > 0, spec["out"] > 0,
                             rw_of(spec)))
                for sm, size in want.items():
                    start = assign[sm]
                    regions.append((start, start + size, t.name, sm.name))
                    host = [d for d in dgs[1:]
                            if d.data_pos <= start
                            and start + size <= d.wkc_pos]
                    if not host:
                        return fail(case, classes, f"{t.name} {sm.name}: "
                                    f"region {start}..{start + size} is in "
                                    f"no datagram's data")
                    d = host[0]
                    fmmu = (spec["mode"] == "fmmu") or \
                        (aero and sm is SyncManager.IN)
                    if fmmu:
                        wantcmd = 10 if sm is SyncManager.IN else 11
                        if d.cmd != wantcmd:
                            return fail(case, classes, f"{t.name} {sm.name} "
                                        f"is carried by command {d.cmd}")
                        logical = sg.fmmu_maps.get(t, {}).get(sm)
                        if logical is None:
                            return fail(case, classes, f"{t.name} {sm.name} "
                                        f"has no FMMU logical address")
                        if start - d.data_pos != logical - d.addr:
                            return fail(
                                case, classes, f"{t.name} {sm.name}: frame "
                                f"offset {start - d.data_pos} in the "
                                f"datagram, but logical offset "
                                f"{logical - d.addr}")
                    else:
                        wantcmd = 4 if sm is SyncManager.IN else 5
                        off = t.pdo_in_off if sm is SyncManager.IN \
                            else t.pdo_out_off
                        if (d.cmd, d.adp, d.ado) != (wantcmd, t.position,
                                                     off) \
                                or d.data_pos != start or d.length != size:
                            return fail(
                                case, classes, f"{t.name} {sm.name}: carried "
                                f"by cmd {d.cmd} adp {d.adp} ado {d.ado:#x} "
                                f"len {d.length} at {d.data_pos}, expected "
                                f"cmd {wantcmd} to {t.position}:{off:#x} "
                                f"len {size} at {start}")
                        if sm is SyncManager.OUT and not any(
                                s == d.hdr_pos
                                for s, _, _ in sg.packet.on_the_fly):
                            return fail(case, classes, f"{t.name}: output "
                                        f"datagram is not a writer")
            regions.sort()
            for a, b in zip(regions, regions[1:]):
                if b[0] < a[1]:
                    return fail(case, classes, f"regions overlap: {a} {b}")
            for d in dgs[1:]:
                if d.cmd in (10, 11) and d.length:
                    windows.append((d.addr, d.addr + d.length, gi, d.cmd))
            keyparts.append(tuple(gkey))
            allgroups.append(g)
        windows.sort()
        for a, b in zip(windows, windows[1:]):
            if b[0] < a[1]:
                return fail(case, classes, f"logical windows overlap: "
                            f"{[hex(x) for x in a[:2]]} (group {a[2]}) and "
                            f"{[hex(x) for x in b[:2]]} (group {b[2]})")
    mixed = any(len({t["mode"] for t in g["terms"]}) > 1
                or len(g["terms"]) >= 2 for g in case["groups"])
    nontrivial = (mixed and bool(allgroups)) or len(allgroups) >= 2 \
        or "overflow" in classes
    classes += [f"groups={len(case['groups'])}"] + sorted(
        {f"mode={t['mode']}" for g in case["groups"] for t in g["terms"]})
    return dict(ok=True, nontrivial=nontrivial, key=repr(keyparts),
                classes=classes, summary={"windows": windows[:6]})


def minimal_size(terms):
    """frame size the group needs; more than 15 datagrams count as too big
    (the per-frame datagram limit of Packet.append)"""
    size = 16
    fin = fout = 0
    count = 0
    for t, spec in terms:
        if spec["mode"] == "aerotech":
            count += (1 if spec["in"] else 0) \
                + (2 if rw_of(spec) and spec["out"] else 0)
        elif spec["mode"] == "direct":
            count += (1 if spec["in"] else 0) \
                + (1 if rw_of(spec) and spec["out"] else 0)
    fm_in = any(s["in"] for t, s in terms if s["mode"] != "direct")
    fm_out = any(rw_of(s) and s["out"] for t, s in terms
                 if s["mode"] == "fmmu")
    if count + fm_in + fm_out > 15:
        return 10**6
    for t, spec in terms:
        if spec["mode"] == "aerotech":
            if spec["in"]:
                fin += t.in_size
                size += 12 + 1
            if rw_of(spec) and spec["out"]:
                size += 12 + t.out_size + 12 + 1
        elif spec["mode"] == "fmmu":
            if spec["in"]:
                fin += spec["in"]
            if rw_of(spec) and spec["out"]:
                fout += spec["out"]
        else:
            if spec["in"]:
                size += 12 + spec["in"]
            if rw_of(spec) and spec["out"]:
                size += 12 + spec["out"]
    if fin:
        size += 12 + fin
    if fout:
        size += 12 + fout
    return size


def fail(case, classes, what):
    desc = [(g["kind"], [(t["mode"], t["in"], t["out"], rw_of(t))
                         for t in g["terms"]]) for g in case["groups"]]
    return dict(ok=False, nontrivial=True, classes=classes,
                what=f"{what}; groups {desc}")


KNOWN = {}
