"""C14 State changes walk the EtherCAT state machine in order

domain : terminal behaviours: start state in {INIT, PRE-OP, SAFE-OP, OP}, error
         flag set or not, target in {PRE-OP, SAFE-OP, OP}, each transition
         taking 0..k status polls, acknowledgement taking 0..1 polls, an error
         appearing at status read n (or never).
oracle : invariant over the observed AL-control writes and AL-status reads of
         the simulated terminal (not over the model's hidden state).
"""
import itertools

from hypothesis import strategies as st

from ebpfcat.ethercat import EtherCat, EtherCatError, MachineState, Terminal

from ..sim import bus as simbus
from ..sim import loop as simloop
import asyncio

ID = "C14"
LEVEL = "exploration"
TECHNIQUE = ("bounded exhaustive enumeration of terminal behaviours plus "
             "Hypothesis sampling beyond the bound; invariant over the "
             "observed register history")
RULE = ("all (start, error flag, target, per-transition delay 0..k, ack delay "
        "0..1, error at status read n or never) with k=1,n<=5 (quick) / "
        "k=3,n<=8 (thorough) are enumerated, plus Hypothesis cases with delays "
        "up to 6 and occasionally 40-4100; the real Terminal.to_operational runs against a simulated "
        "terminal; non-trivial = at least one state request was written; "
        "distinct by the whole case")
ASSUMPTIONS = [
    "the simulated terminal is conformant: it enters exactly the requested "
    "state after its delay, refuses upward jumps over a state with an error, "
    "and ignores requests while an unacknowledged error is shown",
    "the datagram-level bus stands in for sendloop/process_packet",
    "a master still polling 200 status reads after the terminal reported the "
    "requested state is counted as 'does not return' (bounded safety)",
]
EXAMPLES = {"quick": 60, "thorough": 5000}
MIN_NONTRIVIAL = {"quick": 500, "thorough": 5000}

ORDER = [1, 2, 4, 8]


def enumerate_cases(tier):
    k, nmax = (1, 5) if tier == "quick" else (3, 8)
    for start, err, target, d1, d2, d3, ack, at in itertools.product(
            ORDER, (False, True), (2, 4, 8), range(k + 1), range(k + 1),
            range(k + 1), (0, 1), (None,) + tuple(range(1, nmax + 1))):
        yield {"start": start, "error": err, "target": target,
               "delays": [d1, d2, d3], "ack_delay": ack, "error_at": at,
               "latency": 0,
               # AL status bit 5 set in half of the enumerated behaviours
               "id_loaded": (d1 + d2 + d3 + ack) % 2 == 1,
               # ... and an error flag that comes with status code 0 in a third
               "err_code": 0 if (start + d1 + 2 * d2 + ack) % 3 == 0
               else 0x1b}


    # terminals that drop the error flag as soon as the acknowledgement is
    # written, while they still report the old state for some polls
    for start, target, d1, d2, d3, ack in itertools.product(
            ORDER, (2, 4, 8), (0, 1), (0, 2), (0, 1), (1, 2, 3)):
        yield {"start": start, "error": True, "target": target,
               "delays": [d1, d2, d3], "ack_delay": ack, "error_at": None,
               "latency": 0, "id_loaded": False, "err_code": 0x1b,
               "ack_clears_first": True}


def strategy(tier):
    return st.fixed_dictionaries({
        "start": st.sampled_from(ORDER),
        "error": st.booleans(),
        "target": st.sampled_from([2, 4, 8]),
        # now and then a transition takes hundreds of polls
        "delays": st.lists(st.integers(0, 6) | st.integers(0, 6)
                           | st.sampled_from([40, 99, 100, 101, 150, 255, 256,
                                              300, 999, 1000, 1001, 1500,
                                              4100]),
                           min_size=3, max_size=3),
        "ack_delay": st.integers(0, 2),
        "error_at": st.none() | st.integers(1, 20),
        "latency": st.integers(0, 3),
        "id_loaded": st.booleans(),
        "err_code": st.sampled_from([0x1b, 0x1b, 0, 0x11, 0x8000]),
    })


def run_case(case):
    term = simbus.TerminalModel(station=77)
    term.al_state = case["start"]
    term.al_error = case["error"]
    # the AL status code that comes with an error flag may be anything,
    # also 0 ("no error" / unspecified)
    code = case.get("err_code", 0x1b)
    term.al_code = code if case["error"] else 0
    term.al_error_code = code
    delays = case["delays"]

    def delay(frm, to):
        if to == 1:
            return case["ack_delay"]
        return delays[{2: 0, 4: 1, 8: 2}[to]]

    def refuse(frm, to):
        # upward transitions must be single steps (ETG.1000.6 state machine)
        if to in (2, 4, 8) and frm in ORDER \
                and ORDER.index(to) > ORDER.index(frm) + 1:
            return 0x11
        return None

    term.al_ack_clears_first = bool(case.get("ack_clears_first"))
    term.al_delay = delay
    term.al_refuse = refuse
    term.al_error_at = case["error_at"]
    term.al_status_extra = 0x20 if case.get("id_loaded") else 0
    bus = simbus.Bus([term])
    outcome = {}

    async def go(loop):
        ec = EtherCat("verif")
        ec.send_queue = asyncio.Queue()
        lat = case["latency"]
        server = asyncio.ensure_future(
            simbus.serve_datagrams(ec, bus, (lambda: lat) if lat else None))
        t = Terminal(ec)
        t.position = 77
        task = asyncio.ensure_future(
            t.to_operational(MachineState(case["target"])))
        while not task.done():
            await asyncio.sleep(0)
            if term.al_status_reads > 400 + sum(delays):
                task.cancel()
                outcome["stalled"] = True
                break
        try:
            await task
            outcome["result"] = "returned"
        except EtherCatError as e:
            outcome["result"] = "EtherCatError"
        except asyncio.CancelledError:
            outcome["result"] = "stalled"
        except Exception as e:
            outcome["result"] = f"{type(e).__name__}: {e}"
        server.cancel()

    try:
        simloop.run(go, budget=3000000)
    except simloop.LoopStalled:
        outcome["result"] = "deadlock"
    except simloop.BudgetExceeded:
        outcome["result"] = "stalled"

    # observed history
    events = []
    for ev in term.log:
        if ev[0] == "r" and ev[1] <= 0x130 < ev[1] + len(ev[2]):
            b = ev[2][0x130 - ev[1]]
            events.append(("R", b & 0xf, bool(b & 0x10)))
        elif ev[0] == "w" and ev[1] <= 0x120 < ev[1] + len(ev[2]):
            events.append(("W", ev[2][0x120 - ev[1]]
                           | (ev[2][0x121 - ev[1]] << 8
                              if len(ev[2]) > 0x121 - ev[1] else 0)))
        elif ev[0] == "w":
            events.append(("W-other", ev[1]))
    what = judge(case, events, outcome["result"])
    nreq = sum(1 for e in events if e[0] == "W")
    classes = [f"result={outcome['result']}", f"writes={nreq}",
               "start-error" if case["error"] else "start-clean",
               "err-injected" if any(e[0] == "R" and e[2]
                                     for e in events[1:]) else "no-err-seen"]
    return dict(ok=what is None, nontrivial=nreq > 0, what=what or "",
                classes=classes,
                summary={"events": events[:40], "result": outcome["result"]})


def judge(case, events, result):
    target = case["target"]
    if not events or events[0][0] != "R":
        return f"first access is not an AL status read: {events[:3]}"
    if any(e[0] == "W-other" for e in events):
        return f"unexpected register write: {events}"
    _, st0, err0 = events[0]
    i = 1
    acked = False
    if err0:
        if len(events) < 2 or events[1] != ("W", 0x11):
            return (f"error reported but first write is "
                    f"{events[1] if len(events) > 1 else None}, not INIT|ACK "
                    f"(0x11)")
        start = 1
        acked = True
        i = 2
    else:
        start = st0
    expected = [s for s in (2, 4, 8) if s > start and s <= target]
    reqs = []
    last_read = None if acked else (st0, err0)
    error_seen = False
    for j in range(i, len(events)):
        e = events[j]
        if error_seen:
            return f"activity after an error was reported: {events}"
        if e[0] == "R":
            last_read = (e[1], e[2])
            if e[2]:
                error_seen = True
        else:
            v = e[1]
            if v & ~0x1f:
                return f"AL control write {v:#x} has unknown bits"
            k = len(reqs)
            if k >= len(expected):
                return (f"request {v:#x} beyond the target: expected only "
                        f"{expected} from start {start}, events {events}")
            if v & 0xf != expected[k]:
                return (f"request #{k} is state {v & 0xf}, expected "
                        f"{expected[k]} (start {start}, target {target}): "
                        f"{events}")
            if k > 0 or not acked:
                prev = reqs[-1] if reqs else start
                if last_read is None or last_read[0] != prev \
                        or last_read[1]:
                    return (f"state {v & 0xf} requested although the last "
                            f"status read reported {last_read}, not the "
                            f"previous state {prev}: {events}")
            reqs.append(v & 0xf)
    if error_seen:
        if result != "EtherCatError":
            return (f"terminal reported an error while changing state but "
                    f"to_operational ended with '{result}': {events}")
        return None
    if result == "EtherCatError":
        return f"EtherCatError raised although no error was reported: {events}"
    if result != "returned":
        # the simulated terminal reports each requested state after its
        # bounded delay; not returning means the driver failed to see it
        return f"to_operational did not return ({result}): {events[-6:]}"
    if reqs != expected:
        return (f"returned after requesting {reqs}, expected {expected}: "
                f"{events}")
    final = last_read
    if expected:
        if final is None or final[0] != target or final[1]:
            return (f"returned although the last status read was {final}, "
                    f"target {target}: {events}")
    else:
        if not acked and not (st0 >= target):
            return f"returned without reaching target: {events}"
    return None


KNOWN = {}
