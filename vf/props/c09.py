"""C09 Hash-map variables and Dict entries agree between Python and program
(and the operation machine of C10)

domain : programs with 1-6 hash-map variables (formats, defaults), a Dict
         whose key / value Structures have 1-3 packed members of all sizes, a
         second Dict and possibly a local variable declared next to it;
         histories of operations issued from Python (variable get / set;
         d[k] = v, d[k], del, pop with and without default, `in`, iteration)
         and from the program (variable store / load / direct copy between
         two variables; set key members, update(), lookup() with member reads
         and writes, Else; both Dicts staged before either is updated, with a
         local and a hash-map variable used in between), against a dict model.
executor: maps live in the user-space stand-in for bpf(2) (vf/vm/fakebpf.py),
         the program runs in the independent interpreter on the same maps.
oracle : after every operation both sides agree with the model; defaults are
         visible after load; absent keys take Else / raise KeyError; key and
         value layouts equal struct.pack of the members in declaration order.
"""
import os
import struct
from contextlib import contextmanager

from hypothesis import strategies as st

from ebpfcat.arraymap import ArrayMap, PerCPUArrayMap
from ebpfcat.ebpf import (
    AssembleError, LocalVar, Member, Structure, SubProgram)
from ebpfcat.hashmap import Dict, HashMap
from ebpfcat.xdp import XDP, XDPExitCode

from ..gen import dsl
from ..runner import HarnessError
from ..vm import fakebpf, interp, kernel

ID = "C09"
LEVEL = "exploration"
TECHNIQUE = ("model-based stateful testing: Hypothesis-generated operation "
             "histories from the Python and the program side against a dict "
             "model (maps in a user-space bpf stand-in, program in the "
             "independent interpreter)")
RULE = ("Hypothesis draws (hash-map variable formats and defaults, Structure "
        "layouts, a history of 3-25 operations from both sides); non-trivial "
        "= the history has a value written on one side and read on the other "
        "for a variable or a Dict entry; distinct by (formats, layouts, "
        "operation kind sequence); plus enumerated families: 4 byte values "
        "stored into 8 byte cells after big ones, hash maps with 100-513 "
        "variables")
ASSUMPTIONS = [
    "the program side is a command interpreter program built with the DSL: "
    "one run per operation, selected through array-map control variables",
    "values are within the range of the variable / member format",
    "DSL forms the generator itself rejects (AssembleError or another "
    "exception while building) are counted, not judged",
    "the fake kernel copies exactly value_size bytes like the real one; its "
    "copies are clipped to the Python buffer (C10 judges the clipping)",
]
EXAMPLES = {"quick": 60, "thorough": 5000}
MIN_NONTRIVIAL = {"quick": 150, "thorough": 3000}

HFMTS = "BHIQbhiq"
MFMTS = "BHIQbhiq"


@st.composite
def layout(draw, prefix):
    fmts = draw(st.lists(st.sampled_from(MFMTS), min_size=1, max_size=3))
    fmts.sort(key=lambda f: -dsl.SIZES[f])      # packed: no holes
    return fmts


def val_for(draw, f):
    lo, hi = dsl.fmt_range(f)
    return draw(st.sampled_from([lo, hi, 0, 1]) | st.integers(lo, hi))


@st.composite
def case_strategy(draw, percpu=False):
    hv = [{"fmt": draw(st.sampled_from(HFMTS + "x")),
           "default": 0} for _ in range(draw(st.integers(1, 6)))]
    for h in hv:
        if h["fmt"] != "x":
            h["default"] = val_for(draw, h["fmt"])
    kf = draw(layout("k"))
    vf = draw(layout("v"))
    keys = [[val_for(draw, f) for f in kf] for _ in range(4)]
    # a second Dict (and possibly a local variable) declared after the first
    kf2 = draw(layout("k"))
    vf2 = draw(layout("v"))
    keys2 = [[val_for(draw, f) for f in kf2] for _ in range(4)]
    ops = []
    for _ in range(draw(st.integers(3, 25))):
        kind = draw(st.sampled_from(
            ["py_hget", "py_hset", "pr_hget", "pr_hset", "pr_hsetx", "py_dset",
             "py_dget", "py_ddel", "py_dpop", "py_dpopd", "py_diter",
             "pr_dupd", "pr_dlook", "pr_dmod", "py_aget", "py_pread",
             "pr_dupd2", "pr_hcopy", "py_din", "sib_hset", "sib_dset"]))
        k = draw(st.integers(0, len(hv) - 1))
        f = hv[k]["fmt"]
        op = {"op": kind, "k": k,
              "key": draw(st.integers(0, 3)),
              "hval": draw(st.integers(0, 10**6)) if f == "x"
              else val_for(draw, f),
              "vals": [val_for(draw, x) for x in vf]}
        if kind == "pr_dupd2":
            op["key2"] = draw(st.integers(0, 3))
            op["vals2"] = [val_for(draw, x) for x in vf2]
        if kind == "pr_hcopy":
            # a direct program-side copy between two hash-map variables
            op["k2"] = draw(st.integers(0, len(hv) - 1))
            if draw(st.booleans()):
                ops.append(dict(op, op="py_hset"))
        ops.append(op)
        if kind == "pr_hcopy" and draw(st.booleans()):
            ops.append(dict(op, op="py_hget", k=op["k2"]))
        other = {"py_hset": "pr_hget", "pr_hset": "py_hget",
                 "pr_hsetx": "py_hget",
                 "py_dset": "pr_dlook", "pr_dupd": "py_dget",
                 "pr_dmod": "py_dget"}.get(kind)
        if other and draw(st.booleans()):
            ops.append(dict(op, op=other))
    same = draw(st.sampled_from([False, False, True]))
    if same:
        kf2[:], vf2[:] = kf, vf
        keys2 = [[val_for(draw, f) for f in kf2] for _ in range(4)]
        for op in ops:
            if "vals2" in op:
                op["vals2"] = [val_for(draw, x) for x in vf2]
    return {"hv": hv, "kf": kf, "vf": vf, "keys": keys, "ops": ops,
            "kf2": kf2, "vf2": vf2, "keys2": keys2, "same_struct": same,
            "loc": draw(st.sampled_from([None, "B", "H", "I", "Q"])),
            "loc_first": draw(st.booleans()),
            "hv_base": draw(st.sampled_from([False, False, True])),
            "sibling": draw(st.sampled_from([None, None, "smaller",
                                             "bigger"])),
            "pcpu_extra": draw(st.sampled_from([0, 0, 1, 7, 8, 9, 15, 20])),
            "size": draw(st.integers(2, 6)), "lru": draw(st.booleans()),
            "exec": draw(st.sampled_from(["fake", "fake", "kernel"])),
            "derived": draw(st.booleans()),
            "ncpu": draw(st.sampled_from([1, 2, 4, 5, 16])),
            "online_delta": draw(st.sampled_from([0, 0, 1]))}


def strategy(tier):
    return case_strategy()


def enumerate_cases(tier):
    """hash maps with very many variables, up to the 255 a map takes and
    beyond (where the library refuses)"""
    def op(kind, k=0, hval=0, key=0):
        return {"op": kind, "k": k, "key": key, "hval": hval, "vals": [1]}
    # a value computed from a 4 byte variable goes into an 8 byte hash cell
    # after a negative / big computed value went through the stack temporary
    for fmts in (["q", "Q"], ["Q", "q", "I"], ["q", "q", "H", "x"]):
        for first in (-10, -(1 << 40), (1 << 62) + 5):
            for ex in ("fake", "kernel"):
                hv = [{"fmt": f, "default": 0 if f == "x" else 3}
                      for f in fmts]
                def big(k):
                    return first if fmts[k] == "q" else (1 << 63) + 5
                ops = [op("pr_hsetx", 0, big(0)), op("py_hget", 0),
                       op("pr_hsetn", 1, 7), op("py_hget", 1),
                       op("pr_hget", 1), op("pr_hsetx", 1, big(1)),
                       op("pr_hsetn", 0, 123456), op("py_hget", 0),
                       op("pr_hget", 0), op("py_hget", 1),
                       op("pr_hsetn", len(fmts) - 1, 31000),
                       op("py_hget", len(fmts) - 1)]
                yield {"hv": hv, "kf": ["I"], "vf": ["I"],
                       "keys": [[1], [2], [3], [4]], "ops": ops, "kf2": [],
                       "vf2": [], "keys2": [], "same_struct": False,
                       "loc": None, "loc_first": False, "hv_base": False,
                       "sibling": None, "pcpu_extra": 0, "size": 4,
                       "lru": False, "exec": ex, "derived": False,
                       "ncpu": 4, "online_delta": 0}
    # two program objects of the class exist before either is loaded
    for sib in ("smaller", "bigger"):
        for extra in (0, 9):
            hv = [{"fmt": "I", "default": 4}]
            ops = [op("py_pread"), op("pr_hset", 0, 9), op("py_pread"),
                   op("py_hget", 0), op("sib_hset", 0, 5), op("py_pread"),
                   op("py_hget", 0)]
            yield {"hv": hv, "kf": ["I"], "vf": ["I"],
                   "keys": [[1], [2], [3], [4]], "ops": ops, "kf2": [],
                   "vf2": [], "keys2": [], "same_struct": False,
                   "loc": None, "loc_first": False, "hv_base": False,
                   "sibling": sib, "sib_early": True, "pcpu_extra": extra,
                   "size": 4, "lru": False, "exec": "fake",
                   "derived": False, "ncpu": 4, "online_delta": 0}
    for total in (100, 254, 255, 256, 257, 258, 300, 513):
        for fmt in ("I", "q"):
            hv = [{"fmt": fmt, "default": 7}, {"fmt": "x", "default": 0},
                  {"fmt": "B", "default": 200}]
            ops = [op("py_hget", 0), op("py_hget", 2),
                   op("py_hpad", hval=total - 4, key=1), op("py_hget", 0),
                   op("py_hget", 1), op("py_hget", 2),
                   op("pr_hset", 0, 77), op("py_hpad", hval=253, key=2),
                   op("py_hpad", hval=254, key=2), op("pr_hget", 0),
                   op("py_hset", 2, 13), op("py_hpad", hval=0, key=3),
                   op("pr_hget", 2), op("py_hget", 0), op("pr_hsetx", 0, 5),
                   op("py_hpad", hval=total - 5, key=3), op("py_hget", 0)]
            yield {"hv": hv, "hv_pad": total - 3, "kf": ["I"], "vf": ["I"],
                   "keys": [[1], [2], [3], [4]], "ops": ops, "kf2": [],
                   "vf2": [], "keys2": [], "same_struct": False, "loc": None,
                   "loc_first": False, "hv_base": False, "sibling": None,
                   "pcpu_extra": 0, "size": 4, "lru": False,
                   "exec": "fake" if fmt == "I" else "kernel",
                   "derived": False, "ncpu": 4, "online_delta": 0}


class KernelExec:
    """the same history against real maps and BPF_PROG_TEST_RUN"""

    def __init__(self):
        self.overruns = []
        self.unknown_ptrs = []
        self.calls = []
        self.online_cpus = os.cpu_count()
        self.percpu_safe = kernel.possible_cpus() == os.cpu_count()

    def run(self, fd, packet):
        ret, out = kernel.test_run(fd, bytes(packet))
        return ret, out, None


@contextmanager
def real_kernel(ncpu=None):
    with kernel.tracking() as tr:
        try:
            yield KernelExec()
        finally:
            tr.close_all()


PAD_DEFAULT = 0x5a000000


class AfterLoad(Exception):
    pass


def build(case, f):
    hv, kf, vf = case["hv"], case["kf"], case["vf"]
    amap = ArrayMap()
    hmap = HashMap()
    pmap = PerCPUArrayMap()
    def structure(name, prefix, fmts):
        if case.get("derived") and len(fmts) >= 2:
            # the first member comes from a base Structure
            base = type(name + "Base", (Structure,),
                        {f"{prefix}0": Member(fmts[0])})
            return type(name, (base,), {f"{prefix}{i}": Member(x)
                                        for i, x in enumerate(fmts) if i})
        return type(name, (Structure,), {f"{prefix}{i}": Member(x)
                                         for i, x in enumerate(fmts)})
    Key = structure("Key", "k", kf)
    Value = structure("Value", "v", vf)
    ns = {"license": "GPL", "minimumPacketSize": 20, "amap": amap,
          "hmap": hmap, "pmap": pmap}
    two = bool(case.get("kf2"))
    if two and case.get("loc") and case.get("loc_first"):
        ns["loc"] = LocalVar(case["loc"])
    ns["table"] = Dict(Key, Value, size=case["size"], lru=case["lru"])
    if two:
        if case.get("loc") and not case.get("loc_first"):
            ns["loc"] = LocalVar(case["loc"])
        if case.get("same_struct"):
            # both Dicts are declared with the same Structure classes
            Key2, Value2 = Key, Value
        else:
            Key2 = structure("Key2", "k", case["kf2"])
            Value2 = structure("Value2", "v", case["vf2"])
        ns["table2"] = Dict(Key2, Value2, size=8)
        for i in range(3):
            ns[f"kb{i}"] = amap.globalVar("q")
            ns[f"vb{i}"] = amap.globalVar("q")
    ns.update({
          "op": amap.globalVar("I"), "sel": amap.globalVar("I"),
          "found": amap.globalVar("I"), "a0": amap.globalVar("q"),
          "o0": amap.globalVar("q"), "ax": amap.globalVar("x"),
          "ox": amap.globalVar("x"), "pc0": pmap.globalVar("Q"),
          "pc1": pmap.globalVar("I"), "sel2": amap.globalVar("I")})
    # further per-CPU variables: the map value may exceed 64 bytes
    for i in range(case.get("pcpu_extra", 0)):
        ns[f"pcx{i}"] = pmap.globalVar("Q")
    for i in range(3):
        ns[f"ka{i}"] = amap.globalVar("q")
        ns[f"va{i}"] = amap.globalVar("q")
        ns[f"vo{i}"] = amap.globalVar("q")
    for i, h in enumerate(hv):
        ns[f"hv{i}"] = hmap.globalVar(h["fmt"], h["default"])
    # many further variables in the same hash map (declared, given a default,
    # written and read from Python only)
    for i in range(case.get("hv_pad", 0)):
        ns[f"hp{i}"] = hmap.globalVar("I", PAD_DEFAULT + i)

    def program(e):
        with e.op == 1:
            for i in range(len(hv)):
                with e.sel == i:
                    setattr(e, f"hv{i}",
                            e.ax if hv[i]["fmt"] == "x" else e.a0)
        with e.op == 2:
            for i in range(len(hv)):
                with e.sel == i:
                    if hv[i]["fmt"] == "x":
                        e.ox = getattr(e, f"hv{i}")
                    else:
                        e.o0 = getattr(e, f"hv{i}")
        with e.op == 3:
            for i in range(len(kf)):
                setattr(e.table.key, f"k{i}", getattr(e, f"ka{i}"))
            for i in range(len(vf)):
                setattr(e.table.value, f"v{i}", getattr(e, f"va{i}"))
            e.table.update()
            e.o0 = e.sr0
        with e.op == 4:
            for i in range(len(kf)):
                setattr(e.table.key, f"k{i}", getattr(e, f"ka{i}"))
            with e.table.lookup() as (value, Else):
                for i in range(len(vf)):
                    setattr(e, f"vo{i}", getattr(value, f"v{i}"))
                e.found = 1
            with Else:
                e.found = 2
        with e.op == 5:
            for i in range(len(kf)):
                setattr(e.table.key, f"k{i}", getattr(e, f"ka{i}"))
            with e.table.lookup() as (value, Else):
                for i in range(len(vf)):
                    setattr(value, f"v{i}", getattr(e, f"va{i}"))
                e.found = 1
            with Else:
                e.found = 2
        with e.op == 6:
            e.pc0 = e.a0
            e.pc1 = 77
        with e.op == 7:
            # store a computed value (it lives in a stack temporary)
            for i in range(len(hv)):
                with e.sel == i:
                    setattr(e, f"hv{i}",
                            e.ax + 2 if hv[i]["fmt"] == "x" else e.a0 + 3)
        with e.op == 10:
            # store a value computed from a 4 byte variable
            for i in range(len(hv)):
                if hv[i]["fmt"] != "x":
                    with e.sel == i:
                        # (a computed 8 byte value passes the stack first)
                        setattr(e, f"hv{i}", e.a0 + 3)
                        setattr(e, f"hv{i}", abs(e.sel2))
        if two:
            with e.op == 8:
                # both Dicts staged before either update; a local variable
                # and a hash-map variable are used in between
                for i in range(len(kf)):
                    setattr(e.table.key, f"k{i}", getattr(e, f"ka{i}"))
                for i in range(len(vf)):
                    setattr(e.table.value, f"v{i}", getattr(e, f"va{i}"))
                if "loc" in ns:
                    e.loc = e.a0
                for i in range(len(hv)):
                    with e.sel == i:
                        if hv[i]["fmt"] == "x":
                            e.ox = getattr(e, f"hv{i}")
                        else:
                            e.o0 = getattr(e, f"hv{i}")
                for i in range(len(case["kf2"])):
                    setattr(e.table2.key, f"k{i}", getattr(e, f"kb{i}"))
                for i in range(len(case["vf2"])):
                    setattr(e.table2.value, f"v{i}", getattr(e, f"vb{i}"))
                e.table2.update()
                e.found = e.r0
                e.table.update()
                e.o0 = e.sr0
                if "loc" in ns:
                    e.vo0 = e.loc
        with e.op == 9:
            # hash-map variable copied to another one, directly
            for i in range(len(hv)):
                for j in range(len(hv)):
                    if i != j and (hv[i]["fmt"] == "x") == (
                            hv[j]["fmt"] == "x"):
                        with (e.sel == i) & (e.sel2 == j):
                            setattr(e, f"hv{j}", getattr(e, f"hv{i}"))
        e.exit(XDPExitCode.TX)

    ns["program"] = program
    if case.get("hv_base"):
        # the hash map and its variables come from a base class
        inherited = {k: ns.pop(k) for k in ["hmap"] + [
            f"hv{i}" for i in range(len(hv))]}
        cls = type("P", (type("PBase", (XDP,), inherited),), ns)
    else:
        cls = type("P", (XDP,), ns)
    # a second program object of the same class, created later, with fewer
    # or more subprograms (whose variables live in the same per-CPU map)
    sib = case.get("sibling")
    Sub = type("Sub", (SubProgram,), {"spc": pmap.globalVar("Q"),
                                      "spd": pmap.globalVar("I"),
                                      "program": lambda self: None})
    mine = [Sub(), Sub()] if sib == "smaller" else []
    e = cls(subprograms=mine) if mine else cls()
    other = None
    if sib and case.get("sib_early"):
        # both objects exist before either is loaded
        other = cls(subprograms=[Sub()]) if sib == "bigger" else cls()
    try:
        e.load()
    except Exception as err:
        if getattr(e, "loaded", False):
            # the kernel took the program; setting up the maps failed
            raise AfterLoad(f"{type(err).__name__}: {err}") from err
        raise
    if sib:
        if other is None:
            other = cls(subprograms=[Sub()]) if sib == "bigger" else cls()
        other.load()
        e.sibling = other
    if two:
        e.Key2, e.Value2 = Key2, Value2
    return e, Key, Value


def run_case(case, judge_overruns=False):
    hv, kf, vf = case["hv"], case["kf"], case["vf"]
    kinds = []
    classes = []

    def fail(what, **kw):
        return dict(ok=False, nontrivial=True, classes=classes,
                    overruns=list(f.overruns), unknown=list(f.unknown_ptrs),
                    calls=list(f.calls),
                    what=f"{what}; hash variables "
                         f"{[(h['fmt'], h['default']) for h in hv]}, key "
                         f"{kf}, value {vf}, history {kinds[-10:]}", **kw)

    # (with a sibling program object the history runs on the stand-in only:
    # a wrongly sized buffer must not be handed to the real kernel)
    on_kernel = case.get("exec") == "kernel" and kernel.available() \
        and not case.get("sibling")
    ctx = real_kernel if on_kernel else fakebpf.fake
    classes.append("exec=kernel" if on_kernel else "exec=fake")
    with ctx(ncpu=case["ncpu"]) as f:
        if not on_kernel:
            f.online_cpus = max(1, case["ncpu"] - case["online_delta"])
            f.possible_form = case.get("possible_form", 0)
        try:
            e, Key, Value = build(case, f)
        except AssembleError:
            return dict(ok=True, nontrivial=False,
                        classes=["rejected:AssembleError"])
        except HarnessError:
            raise
        except AfterLoad as err:
            if len(hv) + case.get("hv_pad", 0) > 255 \
                    and str(err).startswith("error:"):
                # a hash map has one-byte keys: the 256th variable is refused
                # (struct.error) when the defaults are written
                return dict(ok=True, nontrivial=False,
                            classes=["rejected:more-than-255-hash-variables"])
            return fail(f"the program was loaded, but initialising its maps "
                        f"(the declared defaults) raised {err}"
                        f"{' (hash-map variables declared in a base class)' if case.get('hv_base') else ''}",
                        bucket="after-load")
        except Exception as err:
            return dict(ok=True, nontrivial=False,
                        classes=[f"build-error:{type(err).__name__}"],
                        summary=str(err)[:120])
        fd = e.file_descriptor
        cells = {i: h["default"] for i, h in enumerate(hv)}
        table = {}        # key tuple -> value list
        table2 = {}
        sibkeys = set()
        order = []
        crossed = False
        written_by = {}
        held = []

        def run_prog(**ctl):
            for name, v in ctl.items():
                if isinstance(v, int) and v >= 1 << 63:
                    v -= 1 << 64        # control variables are signed
                setattr(e, name, v)
            ret, pkt, m = f.run(fd, bytearray(64))
            if ret != 3:
                raise interp.Fault(f"program returned {ret}")

        def mk(cls, names, vals):
            s = cls()
            for n, v in zip(names, vals):
                setattr(s, n, v)
            return s
        knames = [f"k{i}" for i in range(len(kf))]
        vnames = [f"v{i}" for i in range(len(vf))]

        # defaults after load
        for i, h in enumerate(hv):
            try:
                got = getattr(e, f"hv{i}")
            except Exception as err:
                return fail(f"reading hash variable {i}:{h['fmt']} from "
                            f"Python raised {type(err).__name__}: {err}",
                            bucket=("py_hget", h["fmt"]))
            if got != h["default"]:
                return fail(f"hash variable {i}:{h['fmt']} holds {got} after "
                            f"loading, its default is {h['default']}",
                            bucket="default")
        pad = case.get("hv_pad", 0)
        pads = {i: PAD_DEFAULT + i for i in range(pad)}
        for i in (0, 1, pad // 2, pad - 2, pad - 1) if pad else ():
            got = getattr(e, f"hp{i}")
            if got != pads[i]:
                return fail(f"further hash variable {len(hv) + i} of "
                            f"{len(hv) + pad} holds {got:#x} after loading, "
                            f"its default is {pads[i]:#x}", bucket="default")
        for op in case["ops"]:
            kind = op["op"]
            k = op["k"]
            fmt = hv[k]["fmt"]
            if kind == "py_hpad":
                # write one of the further variables, read all of them: the
                # others keep their values
                i = op["hval"] % pad
                setattr(e, f"hp{i}", op["key"] + 1000 * i)
                pads[i] = op["key"] + 1000 * i
                for j in range(pad):
                    got = getattr(e, f"hp{j}")
                    if got != pads[j]:
                        return fail(
                            f"after Python wrote further hash variable "
                            f"{len(hv) + i} (of {len(hv) + pad}), variable "
                            f"{len(hv) + j} reads {got:#x}, it holds "
                            f"{pads[j]:#x}", bucket="pad")
                continue
            key = tuple(case["keys"][op["key"]])
            kinds.append(kind)
            try:
                if kind == "py_hget":
                    if fmt == "x":
                        kinds[-1] += ":x"
                    got = getattr(e, f"hv{k}")
                    if written_by.get(("h", k)) == "pr":
                        crossed = True
                    if got != cells[k]:
                        return fail(f"Python reads {got} from hash variable "
                                    f"{k}:{fmt}, it holds {cells[k]}",
                                    bucket=("py_hget", fmt))
                elif kind == "py_hset":
                    v = op["hval"] / 100000 if fmt == "x" else op["hval"]
                    setattr(e, f"hv{k}", v)
                    cells[k] = v
                    written_by["h", k] = "py"
                elif kind == "pr_hset":
                    v = op["hval"] / 100000 if fmt == "x" else op["hval"]
                    run_prog(op=1, sel=k, **{"ax" if fmt == "x" else "a0": v})
                    cells[k] = v
                    written_by["h", k] = "pr"
                elif kind == "pr_hsetx":
                    if fmt == "x":
                        v = op["hval"] / 100000
                        run_prog(op=7, sel=k, ax=v)
                        cells[k] = (op["hval"] + 200000) / 100000
                    else:
                        lo, hi = dsl.fmt_range(fmt[-1])
                        v = min(op["hval"], hi - 3)
                        run_prog(op=7, sel=k, a0=v)
                        cells[k] = v + 3
                    written_by["h", k] = "pr"
                elif kind == "pr_hsetn":
                    if fmt == "x":
                        continue
                    lo, hi = dsl.fmt_range(fmt[-1])
                    v = min(abs(op["hval"]), hi, 0x7fffffff)
                    run_prog(op=10, sel=k, sel2=v, a0=-op["key"] - 5)
                    cells[k] = v
                    written_by["h", k] = "pr"
                elif kind == "pr_hget":
                    run_prog(op=2, sel=k, o0=-12345, ox=-1.5)
                    got = e.ox if fmt == "x" else dsl.decode_value(e.o0, fmt[-1])
                    if written_by.get(("h", k)) == "py":
                        crossed = True
                    want = cells[k]
                    if got != want:
                        return fail(f"the program reads {got} from hash "
                                    f"variable {k}:{fmt}, it holds {want}",
                                    bucket=("pr_hget", fmt))
                elif kind == "py_dset":
                    full = len(table) >= case["size"] and key not in table
                    try:
                        e.table[mk(Key, knames, key)] = mk(Value, vnames,
                                                           op["vals"])
                    except IndexError:
                        if not full or case["lru"]:
                            return fail("Dict insert failed with IndexError "
                                        "although the map is not full")
                        continue
                    if full and not case["lru"]:
                        return fail("insert into a full Dict succeeded")
                    if case["lru"] and (full or on_kernel):
                        # the model cannot know which key the LRU evicts
                        # (the kernel's LRU may evict before the map is full)
                        table.clear()
                        table[key] = list(op["vals"])
                        for kk in list(e.table):
                            t = tuple(getattr(kk, n) for n in knames)
                            if t != key:
                                table[t] = [getattr(e.table[kk], n)
                                            for n in vnames]
                    else:
                        table[key] = list(op["vals"])
                    written_by["d", key] = "py"
                elif kind in ("py_dget", "py_dpop", "py_dpopd", "py_ddel"):
                    kobj = mk(Key, knames, key)
                    if bytes(kobj.data) != struct.pack(
                            "<" + "".join(kf), *key):
                        return fail(f"key bytes {bytes(kobj.data).hex()} are "
                                    f"not struct.pack of the members")
                    present = key in table
                    try:
                        if kind == "py_dget":
                            v = e.table[kobj]
                        elif kind == "py_dpop":
                            v = e.table.pop(kobj)
                        elif kind == "py_dpopd":
                            v = e.table.pop(kobj, "dflt")
                        else:
                            del e.table[kobj]
                            v = None
                    except KeyError:
                        if present:
                            return fail(f"{kind} of an existing key raised "
                                        f"KeyError", bucket=kind)
                        continue
                    if not present:
                        if kind == "py_dpopd" and v == "dflt":
                            continue
                        return fail(f"{kind} of an absent key returned {v!r} "
                                    f"instead of raising KeyError",
                                    bucket=kind)
                    for hobj, hwant, hkey in held:
                        # values returned earlier are snapshots of their own
                        hgot = [getattr(hobj, n) for n in vnames]
                        if hgot != hwant:
                            return fail(
                                f"the value returned by an earlier lookup of "
                                f"{hkey} now shows {hgot} instead of {hwant} "
                                f"(after {kind} of {key})", bucket="held")
                    if v is not None:
                        held.append((v, list(table[key]), key))
                        del held[:-2]
                    if v is not None:
                        got = [getattr(v, n) for n in vnames]
                        if written_by.get(("d", key)) == "pr":
                            crossed = True
                        if got != table[key]:
                            return fail(f"{kind} returned {got}, the entry "
                                        f"holds {table[key]}", bucket=kind)
                    if kind != "py_dget":
                        del table[key]
                elif kind == "py_diter":
                    got = sorted(tuple(getattr(kk, n) for n in knames)
                                 for kk in e.table) if table else None
                    if table and got != sorted(table):
                        return fail(f"iteration yields keys {got}, the Dict "
                                    f"holds {sorted(table)}", bucket=kind)
                    if not table:
                        try:
                            got = list(e.table)
                        except Exception as err:
                            return fail(f"iterating an empty Dict raised "
                                        f"{type(err).__name__}",
                                        facts=["iterate-empty-dict"],
                                        bucket="iter-empty")
                        if got:
                            return fail("iterating an empty Dict yields keys")
                elif kind == "pr_dupd":
                    full = len(table) >= case["size"] and key not in table
                    ctl = {"op": 3}
                    for i, v in enumerate(key):
                        ctl[f"ka{i}"] = v
                    for i, v in enumerate(op["vals"]):
                        ctl[f"va{i}"] = v
                    run_prog(**ctl)
                    res = e.o0
                    if full and not case["lru"]:
                        if res == 0:
                            return fail("program update of a full Dict "
                                        "reported success")
                        continue
                    if res != 0:
                        return fail(f"program update returned {res}")
                    if full or (case["lru"] and on_kernel):
                        table.clear()
                        for kk in list(e.table):
                            t = tuple(getattr(kk, n) for n in knames)
                            table[t] = [getattr(e.table[kk], n)
                                        for n in vnames]
                    table[key] = list(op["vals"])
                    written_by["d", key] = "pr"
                elif kind in ("pr_dlook", "pr_dmod"):
                    ctl = {"op": 4 if kind == "pr_dlook" else 5, "found": 0}
                    for i, v in enumerate(key):
                        ctl[f"ka{i}"] = v
                    for i, v in enumerate(op["vals"]):
                        ctl[f"va{i}"] = v
                    run_prog(**ctl)
                    present = key in table
                    if e.found != (1 if present else 2):
                        return fail(f"program lookup of "
                                    f"{'an existing' if present else 'an absent'}"
                                    f" key took the "
                                    f"{'Else' if e.found == 2 else 'found' if e.found == 1 else 'no'}"
                                    f" branch", bucket=kind)
                    if present and kind == "pr_dlook":
                        got = [dsl.decode_value(getattr(e, f"vo{i}"), x)
                               for i, x in enumerate(vf)]
                        if written_by.get(("d", key)) == "py":
                            crossed = True
                        if got != table[key]:
                            return fail(f"program lookup reads {got}, the "
                                        f"entry holds {table[key]}",
                                        bucket=kind)
                    if present and kind == "pr_dmod":
                        table[key] = list(op["vals"])
                        written_by["d", key] = "pr"
                elif kind in ("sib_hset", "sib_dset"):
                    # the other program object of the class has maps of its
                    # own: what happens there is not seen here
                    other = getattr(e, "sibling", None)
                    if other is None:
                        continue
                    if kind == "sib_hset":
                        v = op["hval"] / 100000 if fmt == "x" else op["hval"]
                        setattr(other, f"hv{k}", v)
                        if getattr(other, f"hv{k}") != v:
                            return fail(f"the second program object reads "
                                        f"{getattr(other, f'hv{k}')} from "
                                        f"its hash variable {k}:{fmt} after "
                                        f"{v} was written", bucket=kind)
                    else:
                        full = len(sibkeys) >= case["size"] \
                            and key not in sibkeys
                        try:
                            other.table[mk(Key, knames, key)] = mk(
                                Value, vnames, op["vals"])
                            sibkeys.add(key)
                        except IndexError:
                            if not full or case["lru"]:
                                return fail("insert into the Dict of the "
                                            "second program object failed "
                                            "with IndexError although it is "
                                            "not full", bucket=kind)
                    got = getattr(e, f"hv{k}")
                    if got != cells[k]:
                        return fail(f"after a write to the second program "
                                    f"object of the class, hash variable "
                                    f"{k}:{fmt} of the first reads {got}, it "
                                    f"holds {cells[k]}", bucket=kind)
                    mine = {tuple(getattr(kk, n) for n in knames)
                            for kk in e.table}
                    if mine != set(table) and not case["lru"]:
                        return fail(f"after an insert into the Dict of the "
                                    f"second program object, the first one's "
                                    f"Dict has keys {sorted(mine)}, expected "
                                    f"{sorted(table)}", bucket=kind)
                elif kind == "py_din":
                    got = mk(Key, knames, key) in e.table
                    if got != (key in table):
                        return fail(f"'key in table' is {got} for "
                                    f"{'an existing' if key in table else 'an absent'}"
                                    f" key", bucket=kind)
                elif kind == "pr_hcopy":
                    k2 = op.get("k2", k)
                    f2 = hv[k2]["fmt"]
                    if k2 == k or (fmt == "x") != (f2 == "x"):
                        continue
                    if fmt != "x":
                        lo, hi = dsl.fmt_range(f2[-1])
                        if not lo <= cells[k] <= hi:
                            continue     # does not fit: unspecified
                    run_prog(op=9, sel=k, sel2=k2)
                    cells[k2] = cells[k]
                    written_by["h", k2] = "pr"
                    if written_by.get(("h", k)) == "py":
                        crossed = True
                    kinds[-1] += f":{fmt}>{f2}"
                elif kind == "pr_dupd2":
                    if not case.get("kf2"):
                        continue
                    if case["lru"] or (len(table) >= case["size"]
                                       and key not in table):
                        continue
                    key2 = tuple(case["keys2"][op["key2"]])
                    if len(table2) >= 8 and key2 not in table2:
                        continue
                    ctl = {"op": 8, "sel": k, "found": 99, "o0": -12345,
                           "a0": abs(op["hval"]) & 0x7f}
                    for i, v in enumerate(key):
                        ctl[f"ka{i}"] = v
                    for i, v in enumerate(op["vals"]):
                        ctl[f"va{i}"] = v
                    for i, v in enumerate(key2):
                        ctl[f"kb{i}"] = v
                    for i, v in enumerate(op["vals2"]):
                        ctl[f"vb{i}"] = v
                    run_prog(**ctl)
                    if e.found != 0 or e.o0 != 0:
                        return fail(f"staged updates of two Dicts returned "
                                    f"{e.found} and {e.o0}", bucket=kind)
                    table[key] = list(op["vals"])
                    table2[key2] = list(op["vals2"])
                    written_by["d", key] = "pr"
                    if case.get("loc") and e.vo0 != abs(op["hval"]) & 0x7f:
                        return fail(f"local variable {case['loc']} declared "
                                    f"next to the Dicts reads {e.vo0} after "
                                    f"{abs(op['hval']) & 0x7f} was stored",
                                    bucket="dupd2-local")
                    k2names = [f"k{i}" for i in range(len(case["kf2"]))]
                    v2names = [f"v{i}" for i in range(len(case["vf2"]))]
                    for name, tbl, model, kc, kn, vn in (
                            ("first", e.table, table, Key, knames, vnames),
                            ("second", e.table2, table2, e.Key2, k2names,
                             v2names)):
                        got = {tuple(getattr(kk, n) for n in kn):
                               [getattr(tbl[kk], n) for n in vn]
                               for kk in tbl}
                        if got != model:
                            return fail(
                                f"after staging and updating both Dicts "
                                f"(layouts {kf}->{vf}, {case['kf2']}->"
                                f"{case['vf2']}, local {case.get('loc')}) "
                                f"the {name} holds {got}, expected {model}",
                                bucket=kind)
                    crossed = True
                elif kind == "py_aget":
                    v = op["hval"]
                    v = v - (1 << 64) if v >= 1 << 63 else v
                    e.a0 = v
                    if e.a0 != v:
                        return fail("array variable round trip failed")
                elif kind == "py_pread":
                    if on_kernel and not f.percpu_safe:
                        continue
                    run_prog(op=6, a0=abs(op["hval"]) & 0xffff)
                    e.pmap.read()
                    if getattr(e, "sibling", None) is not None:
                        e.sibling.pmap.read()
                    got = list(e.pc0)
                    if (abs(op["hval"]) & 0xffff) not in (
                            got if on_kernel else got[:1]):
                        return fail(f"per-CPU variable reads {got}",
                                    bucket=kind)
            except interp.Fault as flt:
                return fail(f"{kind}: the program faults: {flt}",
                            bucket=("fault", kind))
            except HarnessError:
                raise
            except Exception as err:
                import traceback
                tb = traceback.extract_tb(err.__traceback__)[-1]
                return fail(f"{kind} raised {type(err).__name__}: {err} "
                            f"({tb.name}:{tb.lineno})",
                            bucket=(kind, type(err).__name__))
        overruns = list(f.overruns)
        unknown = list(f.unknown_ptrs)
        calls = list(f.calls)
    if unknown:
        raise HarnessError(f"untracked pointer handed to bpf(): {unknown[:3]}")
    classes += sorted({"op=" + k.split(":")[0] for k in kinds})
    res = dict(ok=True, nontrivial=crossed,
               key=repr(([h["fmt"] for h in hv], kf, vf,
                         [k for k in kinds])),
               classes=classes, overruns=overruns, calls=calls,
               summary={"history": kinds, "syscalls": len(calls)})
    return res


KNOWN = {}
