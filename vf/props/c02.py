"""C02 Fixed-point arithmetic follows the per-100000 decimal semantics

domain : one statement  dst = tree  or one comparison per program; leaves are
         x-format variables (local, array map), x registers, integer variables
         and registers, int constants and decimal constants n/100000 (biased to
         decimals without exact binary form); operators + - * / // %; depth
         <= 2; plus the user-space path (Python assigns decimals to x array
         variables, the program copies, Python reads back).
oracle : fractions.Fraction; each operator yields the exact rational dropped
         to its result representation with either rounding (a set); constants
         and Python-assigned decimals must be represented exactly.
"""
import operator
from fractions import Fraction

from hypothesis import strategies as st

from ebpfcat.ebpf import AssembleError, Opcode

from ..gen import dsl
from ..runner import HarnessError
from ..vm import kernel
from . import c01

ID = "C02"
LEVEL = "exploration"
TECHNIQUE = ("property-based differential testing: generated fixed-point "
             "statements run in interpreter and kernel, exact rational "
             "arithmetic (fractions.Fraction) with set-valued rounding as "
             "oracle")
RULE = ("Hypothesis draws (declarations, destination, tree of depth <= 2 "
        "mixing fixed and integer operands, optional comparison, 6 input "
        "vectors) and decimals for the Python-side path; non-trivial = a "
        "fixed operand meets an operator, conversion or comparison and at "
        "least one vector was judged; distinct by (tree shape with operators "
        "and operand kinds, destination kind)")
ASSUMPTIONS = [
    "a fixed operand's value is raw/100000; W as in C01 (x operands are 8 "
    "bytes wide); judged when every scaled operand and scaled intermediate "
    "the semantics imply (x100000 for integer operands meeting fixed ones, "
    "raw products before rescaling, x10**5 / x10**10 pre-scalings of true "
    "division) fits W signed",
    "each operator's result is the exact rational dropped to the result "
    "representation (multiple of 1e-5 for fixed results, integer otherwise), "
    "rounding toward zero or minus infinity both accepted and propagated as "
    "a set",
    "decimal constants are passed as Python floats n/100000 (|n| < 2**40)",
]
EXAMPLES = {"quick": 400, "thorough": 5000}
MIN_NONTRIVIAL = {"quick": 300, "thorough": 4000}

BASE = 100000
OPS = ["+", "-", "*", "/", "//", "%"]
PYOP = dict(c01.PYOP)
PYOP["/"] = operator.truediv
CMPS = {"<": operator.lt, "<=": operator.le, ">": operator.gt,
        ">=": operator.ge, "==": operator.eq, "!=": operator.ne}
# Python-side values (scaled by 100000) that are whole numbers beyond the
# 53 bit mantissa of a float: assigned as Python ints
BIGPY = [12345678901234 * 100000, (2**53 + 1) // 100000 * 100000 + 100000,
         -9876543210987 * 100000, 90071992547 * 100000]
# constants whose scaled value lies around the 32 bit immediate limits
BIGDEC = [2**31 - 1, 2**31, 2**31 + 7, 3000050000, 2**32 - 1, 2**32,
          2**32 + 3]
BIGINT = [21474, 21475, 25000, 30000, 42949, 42950]
NONBINARY = [29, 7, 110000, 1, 3, 100001, 99999, 123457, 314159, 271828,
             57, 1999999, 33333]


@st.composite
def case_strategy(draw):
    nvars = draw(st.integers(1, 3))
    decls = []
    for i in range(nvars):
        kind = draw(st.sampled_from(["local", "map"]))
        fmt = draw(st.sampled_from(["x", "x", "x", "q", "i", "I", "H", "Q",
                                    "b"]))
        decls.append({"name": f"v{i}", "kind": kind, "fmt": fmt})
    nregs = draw(st.integers(0, 2))
    nos = draw(st.permutations(dsl.REG_CANDIDATES))[:nregs]
    regs = [{"no": n, "view": draw(st.sampled_from(["x", "x", "sr", "r",
                                                    "sw", "w"]))}
            for n in nos]
    leaves = [["var", d["name"]] for d in decls] \
        + [["reg", r["view"], r["no"]] for r in regs]

    def leaf():
        return draw(st.sampled_from(leaves))

    def const():
        if draw(st.booleans()):
            n = draw(st.sampled_from(NONBINARY)
                     | st.integers(1, 10**7) | st.integers(-10**6, 10**9)
                     | st.sampled_from(BIGDEC))
            return ["dec", n]
        return ["const", draw(st.integers(-50, 50)
                              | st.sampled_from([2, 3, 7, 10, 100, 1000,
                                                 100000, -1, -3])
                              | st.integers(-10**6, 10**6)
                              | st.sampled_from(BIGINT))]

    def tree(d, root=False):
        k = draw(st.integers(0, 6))
        if d == 0 or (k < 2 and not root):
            return leaf()
        if k == 2 and not root:
            return ["neg", tree(d - 1)]
        op = draw(st.sampled_from(OPS))
        shape = draw(st.integers(0, 4))
        if shape == 0:
            return ["bin", op, tree(d - 1), const()]
        if shape == 1:
            return ["bin", op, const(), tree(d - 1)]
        return ["bin", op, tree(d - 1), tree(d - 1)]

    mode = draw(st.sampled_from(["assign", "assign", "assign", "cmp",
                                 "copy"]))
    expr = tree(draw(st.integers(1, 2)), True)
    case = {"decls": decls, "regs": regs, "mode": mode}
    ordered = None
    if mode != "cmp" and draw(st.integers(0, 4)) == 0:
        # the destination is an integer variable with an explicit byte order
        ordered = ["var", "vo"]
        decls.append({"name": "vo",
                      "kind": draw(st.sampled_from(["local", "map", "pkt"])),
                      "fmt": draw(st.sampled_from("<>!"))
                      + draw(st.sampled_from("HIQhiq"))})
    if mode == "assign":
        case["dst"] = ordered or leaf()
        case["expr"] = expr
    elif mode == "copy":
        case["dst"] = ordered or leaf()
        case["expr"] = draw(st.one_of(st.builds(lambda: leaf()),
                                      st.builds(lambda: const())))
    else:
        case["cmp"] = draw(st.sampled_from(list(CMPS)))
        case["expr"] = expr
        case["rhs"] = draw(st.one_of(st.builds(lambda: leaf()),
                                     st.builds(lambda: const())))
    fm = {d["name"]: d["fmt"] for d in decls}
    fm.update({f"r{r['no']}": dsl.view_fmt(r["view"]) for r in regs})
    vectors = []
    for _ in range(6):
        m = draw(st.sampled_from(["small", "small", "mid", "neg", "any"]))
        vec = {}
        for n, f in fm.items():
            if f == "x":
                if m == "small":
                    v = draw(st.integers(0, 50 * BASE)
                             | st.sampled_from([BASE, 29000, 1, 150000]))
                elif m == "mid":
                    v = draw(st.integers(0, 2**31 - 1))
                elif m == "neg":
                    v = draw(st.integers(-50 * BASE, 50 * BASE))
                else:
                    v = draw(st.integers(-2**40, 2**40))
            else:
                lo, hi = dsl.fmt_range(f)
                if m in ("small", "mid"):
                    v = draw(st.integers(0, min(hi, 200 if m == "small"
                                                else 20000)))
                elif m == "neg":
                    v = draw(st.integers(max(lo, -200), min(hi, 200)))
                else:
                    v = draw(c01.value_strategy(f, "fit", False))
            vec[n] = v
        vectors.append(vec)
    case["vectors"] = vectors
    case["py"] = [draw(st.sampled_from(NONBINARY) | st.integers(-10**9, 10**9)
                       | st.sampled_from(BIGPY)),
                  draw(st.sampled_from(NONBINARY)
                       | st.integers(-10**9, 10**9))]
    return case


def strategy(tier):
    return case_strategy()


def enumerate_cases(tier):
    """systematic part: every operator between a fixed-point leaf (register,
    local, map variable) and an integer or decimal constant, both ways round,
    stored into a fixed-point and into an integer destination"""
    leaves = [
        ([], [{"no": 2, "view": "x"}], ["reg", "x", 2], "r2"),
        ([{"name": "v0", "kind": "local", "fmt": "x"}], [], ["var", "v0"],
         "v0"),
        ([{"name": "v0", "kind": "map", "fmt": "x"}], [], ["var", "v0"],
         "v0"),
    ]
    consts = [["const", 3], ["const", -9], ["const", 1000], ["dec", 29000],
              ["dec", -250000], ["dec", 7], ["const", 30000],
              ["dec", 3000050000]]
    values = [0, 100000, 150000, 234779, -161257, 29000, 7, 50 * BASE + 1,
              4000000000, 7 * 10**9 + 1]
    for decls, regs, leaf, name in leaves:
        for dst in (leaf, ["var", "d"]):
            for dfmt in (("x",) if dst is leaf else ("x", "q", "i")):
                ds = list(decls)
                if dst is not leaf:
                    ds = ds + [{"name": "d", "kind": "local", "fmt": dfmt}]
                for op in OPS:
                    for c in consts:
                        for swap in (False, True):
                            expr = ["bin", op, c, leaf] if swap \
                                else ["bin", op, leaf, c]
                            big = c in consts[6:]
                            vectors = [dict({name: v}, **(
                                {"d": 0} if dst is not leaf else {}))
                                for v in (values[4:] if big else values[:6])]
                            yield {"decls": ds, "regs": regs,
                                   "mode": "assign", "dst": dst,
                                   "expr": expr, "vectors": vectors,
                                   "py": [29000, 7]}


    # copies through the fixed-point temporary register xtmp, after the
    # other temporaries (tmp, stmp, wtmp, swtmp) were used in the program
    for touched in ([], ["stmp"], ["tmp"], ["wtmp", "stmp"], ["swtmp"]):
        for decls, regs, leaf, name in leaves:
            for dfmt in ("x", "q", "i"):
                yield {"decls": decls + [{"name": "d", "kind": "local",
                                          "fmt": dfmt}], "regs": regs,
                       "mode": "copy", "dst": ["var", "d"], "expr": leaf,
                       "via_tmp": touched, "py": [29000, 7],
                       "vectors": [{name: v, "d": 0}
                                   for v in (250000, 7, 0, 1234567)]}
        for src in (["dec", 250000], ["const", 12], ["dec", 7]):
            yield {"decls": [{"name": "d", "kind": "map", "fmt": "x"}],
                   "regs": [], "mode": "copy", "dst": ["var", "d"],
                   "expr": src, "via_tmp": touched, "py": [29000, 7],
                   "vectors": [{"d": 0}]}
    # conversion in place: the integer and the fixed-point view of the
    # same register on both sides of a copy
    for no in (3, 0, 8):
        for view in ("sr", "r", "sw", "w"):
            yield {"decls": [], "regs": [{"no": no, "view": view}],
                   "mode": "copy", "dst": ["reg", "x", no],
                   "expr": ["reg", view, no], "py": [29000, 7],
                   "vectors": [{f"r{no}": v} for v in (7, 0, 12345, 3 * BASE)]
                   + ([{f"r{no}": -12}] if view[0] == "s" else [])}
            yield {"decls": [], "regs": [{"no": no, "view": "x"}],
                   "mode": "copy", "dst": ["reg", view, no],
                   "expr": ["reg", "x", no], "py": [29000, 7],
                   "vectors": [{f"r{no}": v}
                               for v in (250000, 0, 99999, 1234567)]}


# ------------------------------------------------------------------ oracle

class Unjudged(Exception):
    pass


def fits(v, W):
    return -(1 << (W - 1)) <= v < (1 << (W - 1))


def need(v, W, what):
    if v.denominator != 1:
        raise HarnessError(f"scaled value {v} is not integral ({what})")
    if not fits(int(v), W):
        raise Unjudged(f"{what} does not fit {W} bits")


def drop(q, fixed):
    """both roundings of the rational q to the representation"""
    s = q * BASE if fixed else q
    f = s.numerator // s.denominator
    t = -((-s.numerator) // s.denominator) if s < 0 else f
    unit = Fraction(1, BASE) if fixed else Fraction(1)
    return {f * unit, t * unit}


def is_signed(node, fm):
    k = node[0]
    if k == "const":
        return node[1] < 0
    if k == "dec":
        return node[1] < 0
    if k in ("var", "reg"):
        f = c01.leaf_fmt(node, fm)
        return f == "x" or f.islower()
    if k == "neg":
        return True
    return is_signed(node[2], fm) or is_signed(node[3], fm)


def ev(node, env, fm, W, facts):
    vals, fx = ev_(node, env, fm, W, facts)
    if any(v < 0 for v in vals) and not is_signed(node, fm):
        raise Unjudged("negative value in an unsigned sub-expression")
    return vals, fx


def ev_(node, env, fm, W, facts):
    """-> (set of Fraction, fixed?)"""
    k = node[0]
    if k == "const":
        return {Fraction(node[1])}, False
    if k == "dec":
        facts.add("decimal-constant")
        if (node[1] / BASE) * BASE != node[1] or \
                int(float(node[1] / BASE) * BASE) != node[1]:
            facts.add("decimal-constant-inexact-float")
        return {Fraction(node[1], BASE)}, True
    if k in ("var", "reg"):
        f = c01.leaf_fmt(node, fm)
        raw = env[c01.leaf_name(node)]
        if f == "x":
            v = dsl.decode_value(raw, "q")
            need(Fraction(v), W, "fixed operand")
            return {Fraction(v, BASE)}, True
        v = dsl.decode_value(raw, f)
        if k == "reg" and node[1] == "sw" and v < 0:
            facts.add("negative-narrow")
        return {Fraction(v)}, False
    if k == "neg":
        vals, fx = ev(node[1], env, fm, W, facts)
        if any(v > 0 for v in vals):
            facts.add("negative-intermediate")
        return {-v for v in vals}, fx
    op = node[1]
    lv, lf = ev(node[2], env, fm, W, facts)
    rv, rf = ev(node[3], env, fm, W, facts)
    out = set()
    for a in lv:
        for b in rv:
            sa = a * BASE if lf else a      # stored representations
            sb = b * BASE if rf else b
            need(sa, W, "left operand")
            need(sb, W, "right operand")
            if op in ("+", "-", "%"):
                fx = lf or rf
                if fx:
                    need(a * BASE, W, "scaled left operand")
                    need(b * BASE, W, "scaled right operand")
                if op == "+":
                    out.add(a + b)
                elif op == "-":
                    out.add(a - b)
                else:
                    if b == 0:
                        raise Unjudged("remainder by zero")
                    if a < 0 or b < 0:
                        facts.add("negative-division")
                    q = a / b
                    fl = q.numerator // q.denominator
                    tr = -((-q.numerator) // q.denominator) if q < 0 else fl
                    out.update((a - b * fl, a - b * tr))
            elif op == "*":
                fx = lf or rf
                need(sa * sb, W, "raw product")
                if lf and rf:
                    facts.add("fixed-times-fixed")
                    if a * b < 0:
                        facts.add("negative-division")
                    out.update(drop(a * b, True))
                else:
                    out.add(a * b)
            elif op == "/":
                fx = True
                if b == 0:
                    raise Unjudged("division by zero")
                if not lf and rf:
                    need(a * BASE * BASE, W, "dividend x 10**10")
                elif lf == rf:
                    need(sa * BASE, W, "dividend x 10**5")
                if a < 0 or b < 0:
                    facts.add("negative-division")
                out.update(drop(a / b, True))
            elif op == "//":
                fx = False
                if b == 0:
                    raise Unjudged("division by zero")
                if lf != rf:
                    need(a * BASE, W, "scaled dividend")
                    need(b * BASE, W, "scaled divisor")
                if a < 0 or b < 0:
                    facts.add("negative-division")
                out.update(drop(a / b, False))
    if len(out) > 32:
        raise Unjudged("too many rounding alternatives")
    if any(v < 0 for v in out):
        facts.add("negative-intermediate")
    for v in out:
        need(v * BASE if fx else Fraction(v), W, "result")
    return out, fx


def kinds(node, fm, acc):
    if node[0] in ("var", "reg"):
        acc.append("F" if c01.leaf_fmt(node, fm) == "x" else "I")
    elif node[0] == "dec":
        acc.append("d")
    elif node[0] == "const":
        acc.append("c")
    elif node[0] == "neg":
        kinds(node[1], fm, acc)
    else:
        kinds(node[2], fm, acc)
        kinds(node[3], fm, acc)
    return acc


def shape(node, fm):
    if node[0] in ("var", "reg"):
        return "F" if c01.leaf_fmt(node, fm) == "x" else "I"
    if node[0] == "dec":
        return "d"
    if node[0] == "const":
        return "c"
    if node[0] == "neg":
        return "-" + shape(node[1], fm)
    return f"({shape(node[2], fm)}{node[1]}{shape(node[3], fm)})"


def to_dsl(node, e):
    if node[0] == "dec":
        return node[1] / BASE
    if node[0] == "neg":
        return -to_dsl(node[1], e)
    if node[0] == "bin":
        return PYOP[node[1]](to_dsl(node[2], e), to_dsl(node[3], e))
    return c01.to_dsl(node, e)


def leaves_of(node, acc):
    if node[0] in ("var", "reg"):
        acc.append(node)
    elif node[0] == "neg":
        leaves_of(node[1], acc)
    elif node[0] == "bin":
        leaves_of(node[2], acc)
        leaves_of(node[3], acc)
    return acc


def render(node):
    if node[0] == "dec":
        return f"{node[1]}/1e5"
    if node[0] == "neg":
        return f"-({render(node[1])})"
    if node[0] == "bin":
        return f"({render(node[2])} {node[1]} {render(node[3])})"
    return c01.render_node(node)


def run_case(case):
    decls, regs, mode = case["decls"], case["regs"], case["mode"]
    # an extra x map variable pair for the python-side path
    decls = decls + [{"name": "py0", "kind": "map", "fmt": "x"},
                     {"name": "py1", "kind": "map", "fmt": "x"},
                     {"name": "pyc", "kind": "map", "fmt": "x"}]
    fm = {d["name"]: d["fmt"] for d in decls}
    fm.update({f"r{r['no']}": dsl.view_fmt(r["view"]) for r in regs})
    expr = case["expr"]
    nodes = [expr] + ([case["dst"]] if mode != "cmp" else [case["rhs"]])
    lv = []
    for n in nodes:
        leaves_of(n, lv)
    W = 32 if any(dsl.SIZES[c01.leaf_fmt(n, fm)] <= 4 for n in lv) else 64
    classes = [f"mode={mode}", f"W={W}"]

    def body(e, prog):
        if mode == "cmp":
            with CMPS[case["cmp"]](to_dsl(expr, e), to_dsl(case["rhs"], e)):
                e.append(Opcode.ST + Opcode.B, 9, 0,
                         prog.layout.extra_out, 1)
        elif case.get("via_tmp"):
            # the value travels through the fixed-point temporary register,
            # after the other temporaries were in use
            for t in case["via_tmp"]:
                with getattr(e, t):
                    setattr(e, t, 1)
            with e.xtmp:
                e.xtmp = to_dsl(expr, e)
                c01.assign(e, case["dst"], e.xtmp)
        else:
            c01.assign(e, case["dst"], to_dsl(expr, e))
        e.py1 = e.py0
        e.pyc = case["py"][1] / BASE

    with kernel.tracking() as tracker:
        try:
            prog = dsl.Program(decls, regs, body, extra_out=8)
            status = prog.assemble(tracker)
        except AssembleError:
            return dict(ok=True, nontrivial=False,
                        classes=classes + ["rejected:AssembleError"])
        except HarnessError:
            raise
        except Exception as err:
            return dict(ok=True, nontrivial=False, classes=classes + [
                f"build-error:{type(err).__name__}"])
        if status == "rejected":
            return dict(ok=True, nontrivial=False,
                        classes=classes + ["rejected:AssembleError"])
        if status == "verifier":
            classes.append("verifier-rejected")
        ks = kinds(expr, fm, [])
        if mode != "cmp":
            dfmt = c01.leaf_fmt(case["dst"], fm)
            dfix = dfmt == "x"
            ks.append("->F" if dfix else "->I")
        else:
            kinds(case["rhs"], fm, ks)
        mixes = any(k in ("F", "d", "->F") for k in ks)
        key = repr((mode, shape(expr, fm), ks[-1], case.get("cmp"))
                   + ((tuple(case["via_tmp"]),) if "via_tmp" in case else ()))
        if "via_tmp" in case:
            classes.append("through-xtmp")
        judged = 0
        # ---- python-side path: assign decimals through the descriptor
        e = prog.ebpf
        n0 = case["py"][0]
        if status != "ok":
            # not loaded: the descriptors still generate code
            return dict(ok=True, nontrivial=False, classes=classes)
        # whole numbers are assigned as Python ints (exact at any size)
        e.py0 = n0 // BASE if n0 % BASE == 0 else n0 / BASE
        pos0 = e.__dict__["py0"]
        mp = prog.map_bytes()
        raw0 = int.from_bytes(mp[pos0:pos0 + 8], "little", signed=True)
        facts0 = {"python-decimal"}
        if raw0 != n0:
            return dict(ok=False, nontrivial=True, classes=classes, key=key,
                        facts=sorted(facts0), bucket="python-set",
                        what=f"Python assigned {n0}/100000 = {n0 / BASE!r} to "
                             f"an x array variable: stored raw {raw0}, "
                             f"expected {n0}")
        if e.py0 != n0 / BASE:
            return dict(ok=False, nontrivial=True, classes=classes, key=key,
                        facts=sorted(facts0), bucket="python-get",
                        what=f"Python reads {e.py0!r}, expected {n0 / BASE!r}")
        for vec in case["vectors"]:
            vec = dict(vec)
            vec["py0"] = n0
            vec["py1"] = 0
            vec["pyc"] = 0
            facts = set()
            exp = None
            try:
                vals, fx = ev(expr, vec, fm, W, facts)
                if mode == "cmp":
                    rvals, rfx = ev(case["rhs"], vec, fm, W, facts)
                    for a in vals | rvals:
                        need(a * BASE, W, "scaled compared value")
                    exp = {CMPS[case["cmp"]](a, b) for a in vals
                           for b in rvals}
                    ll = [c01.leaf_fmt(n, fm)
                          for n in c01.leaves_of(expr, [])]
                    rl = [c01.leaf_fmt(n, fm)
                          for n in c01.leaves_of(case["rhs"], [])]
                    if "Q" in ll and all(f in "BHIQ" for f in ll) and rl \
                            and all(f != "x" and dsl.SIZES[f] <= 4
                                    for f in rl) \
                            and any(b < 0 for b in rvals):
                        facts.add("wide-unsigned-left-vs-negative-narrow-"
                                  "right")
                else:
                    exp = set()
                    for v in vals:
                        if dfix:
                            if not fx:
                                need(v * BASE, W, "scaled store")
                            exp |= drop(v, True) if fx else {v}
                        else:
                            if fx:
                                # the raw (scaled) value is an intermediate
                                # of the conversion: it has to fit W too
                                need(Fraction(v) * BASE, W,
                                     "scaled value converted to an integer")
                                facts.add("fixed-to-int")
                                if v < 0:
                                    facts.add("negative-division")
                            exp |= drop(v, False)
            except Unjudged:
                exp = None
            obs = prog.run(vec, tracker)
            if obs.fault:
                return dict(ok=False, nontrivial=True, classes=classes,
                            key=key, facts=sorted(facts),
                            what=f"generated code faults: {obs.fault}")
            out = prog.read_outputs(obs)
            # python path is judged on every vector
            g1 = out["py1"] - (1 << 64 if out["py1"] >> 63 else 0)
            gc = out["pyc"] - (1 << 64 if out["pyc"] >> 63 else 0)
            if g1 != n0:
                return dict(ok=False, nontrivial=True, classes=classes,
                            key=key, facts=["python-decimal"],
                            what=f"program copy of a Python-assigned x "
                                 f"variable holds raw {g1}, expected {n0}")
            if gc != case["py"][1]:
                return dict(ok=False, nontrivial=True, classes=classes,
                            key=key, bucket="const-store",
                            facts=["decimal-constant"] + (
                                ["decimal-constant-inexact-float"]
                                if int(case["py"][1] / BASE * BASE)
                                != case["py"][1] else []),
                            what=f"constant {case['py'][1]}/100000 stored "
                                 f"into an x variable as raw {gc}")
            if exp is None:
                classes.append("unjudged")
                continue
            judged += 1
            desc = (f"[{', '.join(d['name'] + ':' + d['fmt'] for d in case['decls'])}] "
                    f"{render(expr)} with "
                    f"{ {k: v for k, v in vec.items() if not k.startswith('py')} }")
            if mode == "cmp":
                got = bool(obs.packet[prog.layout.extra_out])
                if got not in exp:
                    return dict(ok=False, nontrivial=True, classes=classes,
                                key=key, facts=sorted(facts), W=W,
                                bucket=(sorted(facts), "cmp"),
                                what=f"{desc} {case['cmp']} "
                                     f"{render(case['rhs'])}: branch "
                                     f"taken={got}, exact {sorted(exp)}")
                continue
            name = c01.leaf_name(case["dst"])
            if name not in out:
                return dict(ok=False, nontrivial=True, classes=classes,
                            key=key, facts=sorted(facts),
                            what="destination register unset")
            size = dsl.SIZES[dfmt]
            mask = (1 << (8 * size)) - 1
            got = out[name] & mask
            want = {int(v * BASE if dfix else v) & mask for v in exp}
            if len(dfmt) > 1:
                # explicit byte order: the bytes struct.pack stores
                want = {dsl.encode_raw(w, dfmt) for w in want}
                classes.append("byte-ordered-destination")
            if got not in want:
                return dict(
                    ok=False, nontrivial=True, classes=classes, key=key,
                    facts=sorted(facts), bucket=(sorted(facts), ks), W=W,
                    what=(f"{render(case['dst'])} = {desc}: destination "
                          f"raw {got:#x} "
                          f"({dsl.decode_value(got, 'q' if dfix else dfmt)}),"
                          f" exact {sorted(str(v) for v in exp)[:4]}"))
        if judged:
            classes.append("judged")
        classes += sorted({"kind=" + k for k in ks})
        return dict(ok=True, nontrivial=bool(judged and mixes), key=key,
                    judged=judged > 0, classes=classes,
                    summary={"stmt": render(expr), "mode": mode,
                             "judged_vectors": judged})


def leftmost(node):
    while node[0] in ("bin", "neg"):
        node = node[2] if node[0] == "bin" else node[1]
    return node


def _leftmost_constant_cmp(case, res):
    """in a comparison the width of a side is taken from its leftmost
    operand; a small constant there makes the whole side a 32 bit
    computation although other operands are 64 bit wide"""
    if case["mode"] != "cmp":
        return False
    return any(leftmost(n)[0] in ("const", "dec")
               and n[0] in ("bin", "neg")
               for n in (case["expr"], case["rhs"]))


def _narrow_negative(case, res):
    facts = set(res.get("facts", ()))
    return res.get("W") == 32 and bool(
        facts & {"negative-intermediate", "negative-narrow"})


KNOWN = {
    "C02-leftmost-constant-comparison": _leftmost_constant_cmp,
    # every operation that implies a division (/ // %, fixed*fixed rescaling,
    # fixed -> integer conversion) uses the unsigned DIV/MOD instructions
    "C02-negative-division":
        lambda case, res: "negative-division" in res.get("facts", ()),
    # root cause shared with C01-narrow-negative-widening
    "C02-narrow-negative-widening": _narrow_negative,
    # root cause shared with C03-wide-unsigned-left-narrow-negative-right
    "C02-wide-unsigned-left-narrow-negative-right":
        lambda case, res: "wide-unsigned-left-vs-negative-narrow-right"
        in res.get("facts", ()),
}
