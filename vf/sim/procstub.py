"""Importable classes for the process-based sync group tests (spawned child
processes must be able to unpickle them)."""
import time

from ebpfcat.ebpfcat import (
    Device, DeviceVar, EBPFTerminal, PacketDesc, ParallelEtherCat,
    ProcessSyncGroup, SyncManager, TerminalVar)


class StubTerminal(EBPFTerminal):
    vin = PacketDesc(SyncManager.IN, 0, "H")
    vout = PacketDesc(SyncManager.OUT, 0, "H")


class StubDevice(Device):
    a = DeviceVar("I", write=True)
    b = DeviceVar("Q")
    inp = TerminalVar()

    def update(self):
        pass


class StubGroup(ProcessSyncGroup):
    """the real parent side; the child only honours the `running` flag"""
    linger = 0.0

    def subprocess_run(self):
        t0 = time.time()
        while self.running and time.time() - t0 < 20:
            time.sleep(0.005)
        time.sleep(self.linger)


def make(linger=0.0):
    ec = ParallelEtherCat("verif")
    t = StubTerminal(ec)
    t.position = 1001
    t.pdos = {}
    t.use_fmmu = False
    t.pdo_in_sz = t.pdo_out_sz = 2
    t.pdo_in_off, t.pdo_out_off = 0x1100, 0x1400
    d = StubDevice()
    d.inp = t.vin
    ec.get_fmmu_addr = lambda: 0x1000
    sg = StubGroup(ec, [d])
    sg.linger = linger
    return ec, t, d, sg
