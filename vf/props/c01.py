"""C01 Integer DSL expressions compute the exact value

domain : one statement  dst (op)= tree  per program; dst and leaves are
         registers (r sr w sw), local / array-map / packet variables of formats
         B H I Q b h i q, constants from the full 64 bit range; operators
         + - * // % & | ^ << >>, unary -, abs, reflected forms, augmented
         assignment; tree depth <= 3 (quick) / 4 (thorough); 8 input vectors
         per program from the boundary pool.
oracle : exact evaluation in Z (set-valued for the rounding of // and %),
         judged when the statement's precondition holds (section 5 of
         DESIGN.md), on the destination's bytes.
"""
import operator

from hypothesis import strategies as st

from ebpfcat.ebpf import AssembleError

from ..gen import dsl
from ..runner import HarnessError
from ..vm import kernel

ID = "C01"
LEVEL = "exploration"
TECHNIQUE = ("property-based differential testing: Hypothesis-generated DSL "
             "statements executed in an independent eBPF interpreter and the "
             "kernel, against exact integer arithmetic")
RULE = ("Hypothesis draws (declarations, destination, expression tree, "
        "8 input vectors); the real DSL builds the program, which is loaded "
        "with EBPF.load and run per vector under BPF_PROG_TEST_RUN and in the "
        "independent interpreter (must agree); non-trivial = program has >= 1 "
        "operator and >= 1 non-constant leaf and at least one vector was "
        "judged; distinct by (tree shape with operators, leaf kinds/formats, "
        "destination kind/format)")
ASSUMPTIONS = [
    "W = 32 if the destination or any variable/register leaf is <= 4 bytes "
    "wide, else 64; a value fits W in a subtree if it lies in the signed "
    "range when the subtree has a signed leaf, negative constant or negation,"
    " else in the unsigned range",
    "precondition: every value in a subtree feeding // % >> abs (and the "
    "node's own result) fits W, shift amounts in [0, W), divisors != 0; "
    "vectors violating it are executed but not judged",
    "w/sw register operands hold their value zero-extended (what a 32 bit "
    "ALU operation leaves in a register)",
    "interpreter (vf/vm/interp.py) is checked against the kernel on every "
    "vector; a disagreement is a harness error",
    "DSL exceptions other than wrong results (AssembleError and others "
    "raised while building) are counted as rejections, not violations",
]
EXAMPLES = {"quick": 300, "thorough": 5000}
MIN_NONTRIVIAL = {"quick": 800, "thorough": 10000}

FMTS = "BHIQbhiq"
BINOPS = ["+", "-", "*", "//", "%", "&", "|", "^", "<<", ">>"]
PYOP = {"+": operator.add, "-": operator.sub, "*": operator.mul,
        "//": operator.floordiv, "%": operator.mod, "&": operator.and_,
        "|": operator.or_, "^": operator.xor, "<<": operator.lshift,
        ">>": operator.rshift}
PYIOP = {"+": operator.iadd, "-": operator.isub, "*": operator.imul,
         "//": operator.ifloordiv, "%": operator.imod, "&": operator.iand,
         "|": operator.ior, "^": operator.ixor, "<<": operator.ilshift,
         ">>": operator.irshift}
SPECIAL = {"//", "%", ">>", "abs"}


# ------------------------------------------------------------- generation

def const_strategy():
    return st.one_of(
        st.integers(-16, 16),
        st.sampled_from([0x7f, 0x80, 0xff, 0x100, 0x7fff, 0x8000, 0xffff,
                         0x7fffffff, 0x80000000, 0xffffffff, 0x100000000,
                         -0x80000000, -0x80000001, -0x7fffffff,
                         2**63 - 1, -2**63, 2**64 - 1, 100000, 1000, 7, 3]),
        st.integers(-2**31, 2**31 - 1),
        st.integers(-2**63, 2**64 - 1),
    )


@st.composite
def case_strategy(draw, max_depth=3):
    nvars = draw(st.integers(0, 3))
    # a third of the programs are homogeneous in width and signedness: there
    # the typing of constants and sub-expressions alone decides which
    # instruction variant (arithmetic / logical shift ...) is right
    profile = draw(st.sampled_from([None, None, None, None, "r", "w", "sr",
                                    "sw"]))
    pfmts = {"r": "Q", "w": "I", "sr": "q", "sw": "i"}
    decls = [{"name": f"v{i}",
              "kind": draw(st.sampled_from(["local", "map", "pkt"])),
              "fmt": pfmts[profile] if profile
              else draw(st.sampled_from(FMTS))} for i in range(nvars)]
    nregs = draw(st.integers(0 if nvars else 1, 3))
    nos = draw(st.permutations(dsl.REG_CANDIDATES))[:nregs]
    regs = [{"no": n, "view": profile or draw(st.sampled_from(
        ["r", "sr", "w", "sw"]))} for n in nos]
    leaves = [["var", d["name"]] for d in decls] \
        + [["reg", r["view"], r["no"]] for r in regs]

    def leaf():
        return draw(st.sampled_from(leaves))

    def tree(depth, root=False):
        kind = draw(st.integers(0, 9))
        if depth == 0 or (kind < 3 and not root):
            return leaf()
        if kind == 3:
            return [draw(st.sampled_from(["neg", "abs"])), tree(depth - 1)]
        op = draw(st.sampled_from(BINOPS))
        shape = draw(st.integers(0, 5))
        if op in ("<<", ">>") and draw(st.booleans()):
            # small constant shift amounts are the common use
            return ["bin", op, tree(depth - 1),
                    ["const", draw(st.integers(0, 31)
                                   | st.sampled_from([32, 33, 47, 63, 64]))]]
        if shape == 0:
            return ["bin", op, tree(depth - 1), ["const",
                                                 draw(const_strategy())]]
        if shape == 1:
            return ["bin", op, ["const", draw(const_strategy())],
                    tree(depth - 1)]
        return ["bin", op, tree(depth - 1), tree(depth - 1)]

    if draw(st.integers(0, 5)) == 0:
        # the typing of a sub-expression with a constant decides between the
        # signed and the unsigned variant of the operation applied to it
        inner = ["bin", draw(st.sampled_from(["+", "-", "^", "|", "&"])),
                 leaf(), ["const", draw(st.integers(1, 16)
                                        | const_strategy())]]
        if draw(st.booleans()):
            inner = [inner[0], inner[1], inner[3], inner[2]]
        expr = draw(st.sampled_from([
            ["bin", ">>", inner, ["const", draw(st.integers(1, 31))]],
            ["abs", inner],
            ["bin", "//", inner, ["const", draw(st.integers(1, 9))]],
            ["bin", "%", inner, ["const", draw(st.integers(1, 9))]]]))
    else:
        expr = tree(draw(st.integers(1, max_depth)), True)
    dst = leaf()
    aug = draw(st.none() | st.sampled_from(BINOPS)) \
        if draw(st.integers(0, 3)) == 0 else None
    names = [d["name"] for d in decls] + [f"r{r['no']}" for r in regs]
    fmts = {d["name"]: d["fmt"] for d in decls}
    fmts.update({f"r{r['no']}": dsl.view_fmt(r["view"]) for r in regs})
    wide = all(dsl.SIZES[f] == 8 for f in fmts.values())
    vectors = []
    for _ in range(8):
        mode = draw(st.sampled_from(["fit", "fit", "small", "any"]))
        vec = {}
        for n in names:
            vec[n] = draw(value_strategy(fmts[n], mode, wide))
        vectors.append(vec)
    return {"decls": decls, "regs": regs, "dst": dst, "aug": aug,
            "expr": expr, "vectors": vectors}


def value_strategy(fmt, mode, wide):
    lo, hi = dsl.fmt_range(fmt)
    if mode == "small":
        return st.integers(max(lo, -20), min(hi, 20))
    if mode == "fit" and not wide:
        lo, hi = max(lo, -2**31 if lo < 0 else 0), \
            min(hi, 2**31 - 1 if lo < 0 else 2**32 - 1)
    pool = [v for v in (0, 1, -1, 2, -2, lo, hi, lo + 1, hi - 1, hi // 2,
                        0x7f, 0x80, 0xff, 0x7fff, 0x8000, 0xffff,
                        0x7fffffff, 0x80000000, 0xffffffff, -0x80000000)
            if lo <= v <= hi]
    return st.sampled_from(pool) | st.integers(lo, hi)


def strategy(tier):
    return case_strategy(3 if tier == "quick" else 4)


def enumerate_cases(tier):
    """systematic part: the operation whose variant depends on signedness
    (>>, abs, //, %) applied to `leaf op constant` / `constant op leaf` for
    every width / signedness of the leaf and constants around the typing
    boundaries, on boundary inputs"""
    consts = [1, 5, -5, 0x7fffffff, 0x80000000, 0xffffffff, -0x80000000,
              2**63 - 1, 2**63, 2**64 - 1]
    for view, fmt in (("r", "Q"), ("sr", "q"), ("w", "I"), ("sw", "i")):
        lo, hi = dsl.fmt_range(fmt)
        pool = [v for v in (0, 1, 4, 7, hi, hi - 4, hi // 2 + 1, lo, lo + 3,
                            -1, -6) if lo <= v <= hi]
        for leafkind in ("reg", "var"):
            if leafkind == "reg":
                decls, regs = [], [{"no": 3, "view": view}]
                leaf, name = ["reg", view, 3], "r3"
            else:
                decls, regs = [{"name": "v0", "kind": "local",
                                "fmt": fmt}], []
                leaf, name = ["var", "v0"], "v0"
            # the unary operators under the sign-dependent consumers
            for inner in (["neg", leaf], ["abs", leaf],
                          ["neg", ["neg", leaf]]):
                for outer in (["bin", ">>", inner, ["const", 1]],
                              ["bin", ">>", inner, ["const", 7]],
                              ["abs", inner],
                              ["bin", "//", inner, ["const", 3]],
                              ["bin", "%", inner, ["const", 3]],
                              ["bin", "+", inner, ["const", 1]]):
                    yield {"decls": decls, "regs": regs, "dst": leaf,
                           "aug": None, "expr": outer,
                           "vectors": [{name: v} for v in pool + [2, 200]
                                       if lo <= v <= hi]}
            for op in ("+", "-", "^", "|", "&"):
                for c in consts:
                    for swap in (False, True):
                        inner = ["bin", op, ["const", c], leaf] if swap \
                            else ["bin", op, leaf, ["const", c]]
                        for outer in (["bin", ">>", inner, ["const", 1]],
                                      ["abs", inner],
                                      ["bin", "//", inner, ["const", 3]],
                                      ["bin", "%", inner, ["const", 3]]):
                            yield {"decls": decls, "regs": regs, "dst": leaf,
                                   "aug": None, "expr": outer,
                                   "vectors": [{name: v} for v in pool]}


    # two typed leaves: every operator between every pair of widths and
    # signednesses, its result consumed by the sign-dependent operations
    for kind in ("reg", "var"):
        for va, fa in (("r", "Q"), ("sr", "q"), ("w", "I"), ("sw", "i")):
            for vb, fb in (("r", "Q"), ("sr", "q"), ("w", "I"), ("sw", "i"),
                           (None, "b"), (None, "H")):
                if kind == "reg":
                    if vb is None:
                        continue
                    decls = []
                    regs = [{"no": 3, "view": va}, {"no": 0, "view": vb}]
                    A, B, na, nb = ["reg", va, 3], ["reg", vb, 0], "r3", "r0"
                else:
                    decls = [{"name": "v0", "kind": "local", "fmt": fa},
                             {"name": "v1", "kind": "map", "fmt": fb}]
                    regs = []
                    A, B, na, nb = ["var", "v0"], ["var", "v1"], "v0", "v1"
                la, ha = dsl.fmt_range(fa)
                lb, hb = dsl.fmt_range(fb)
                top = ha // 2 + 1 if la == 0 else ha      # top bit / largest
                vectors = [{na: a, nb: b} for a, b in (
                    (top, 0), (top + 16 if la == 0 else la, 0), (top, 1),
                    (ha, 0), (la, 1), (1, 3), (top, hb), (7, lb),
                    (top // 2, 1), (-1 if la else ha, 2))
                    if la <= a <= ha and lb <= b <= hb]
                for op in BINOPS:
                    inner = ["bin", op, A, B]
                    for outer in (["bin", ">>", inner, ["const", 4]],
                                  ["abs", inner],
                                  ["bin", "//", inner, ["const", 3]],
                                  ["bin", "%", inner, ["const", 3]]):
                        yield {"decls": decls, "regs": regs, "dst": A,
                               "aug": None, "expr": outer,
                               "vectors": vectors}


# ----------------------------------------------------------------- oracle

class Unjudged(Exception):
    pass


def leaf_fmt(node, fmts):
    if node[0] == "var":
        return fmts[node[1]]
    return dsl.view_fmt(node[1])


def leaf_name(node):
    return node[1] if node[0] == "var" else f"r{node[2]}"


def fits(v, signed, W):
    if signed:
        return -(1 << (W - 1)) <= v < (1 << (W - 1))
    return 0 <= v < (1 << W)


def has_and(node):
    if node[0] == "bin":
        return node[1] == "&" or has_and(node[2]) or has_and(node[3])
    if node[0] in ("neg", "abs"):
        return has_and(node[1])
    return False


def has_abs(node):
    if node[0] == "abs":
        return True
    if node[0] == "bin":
        return has_abs(node[2]) or has_abs(node[3])
    if node[0] == "neg":
        return has_abs(node[1])
    return False


def ev(node, env, fmts, W, facts):
    """-> (set of exact values, signed?, [(value, signed)] of the subtree)"""
    k = node[0]
    if k == "const":
        return {node[1]}, node[1] < 0, [(node[1], node[1] < 0)]
    if k in ("var", "reg"):
        fmt = leaf_fmt(node, fmts)
        v = dsl.decode_value(env[leaf_name(node)], fmt)
        if k == "reg" and node[1] == "sw" and v < 0:
            facts.add("negative-sw-register")
        if fmt in "bhi" and v < 0:
            facts.add("negative-short-signed-var")
        return {v}, fmt.islower(), [(v, fmt.islower())]
    if k in ("neg", "abs"):
        vals, signed, sub = ev(node[1], env, fmts, W, facts)
        signed_here = True if k == "neg" else signed
        if k == "abs":
            for v, s in sub:
                if not fits(v, s, W):
                    raise Unjudged("abs operand subtree does not fit")
            out = {abs(v) for v in vals}
            # the result is never negative: it fits when the width holds it
            # as an unsigned number (abs(-2**31) = 2**31 fits 32 bits)
            for v in out:
                if not fits(v, False, W):
                    raise Unjudged("abs result does not fit")
            signed_here = False
            if any(v < 0 for v in vals):
                facts.add("abs-of-negative")
                if has_and(node[1]):
                    facts.add("negative-through-and")
                if has_abs(node[1]):
                    facts.add("negative-through-abs")
            if not signed and any(v >= 1 << 63 for v in vals):
                facts.add("abs-unsigned-topbit")
        else:
            out = {-v for v in vals}
            if any(v < 0 for v in out):
                facts.add("negative-intermediate")
        sub = sub + [(v, signed_here) for v in out]
        return out, signed_here, sub
    op = node[1]
    lv, ls, lsub = ev(node[2], env, fmts, W, facts)
    rv, rs, rsub = ev(node[3], env, fmts, W, facts)
    # the count of a right shift does not make the shifted value signed
    signed = ls if op == ">>" else ls or rs
    if op in SPECIAL:
        for v, s in lsub + rsub:
            if not fits(v, s, W):
                raise Unjudged(f"value feeding {op} does not fit {W} bits")
        for v in lv | (set() if op == ">>" else rv):
            if not fits(v, signed, W):
                raise Unjudged(f"operand of {op} does not fit {W} bits")
    out = set()
    for a in lv:
        for b in rv:
            if op == "+":
                out.add(a + b)
            elif op == "-":
                out.add(a - b)
                if node[2][0] == "reg" and node[2][1] == "r" \
                        and node[3][0] == "const" and node[3][1] > 0 \
                        and a - b >= 1 << (W - 1):
                    facts.add("unsigned-register-minus-const-topbit")
            elif op == "*":
                out.add(a * b)
            elif op == "&":
                out.add(a & b)
            elif op == "|":
                out.add(a | b)
            elif op == "^":
                out.add(a ^ b)
            elif op == "<<":
                if not 0 <= b < W:
                    raise Unjudged("shift amount out of range")
                out.add(a << b)
            elif op == ">>":
                if not 0 <= b < W:
                    raise Unjudged("shift amount out of range")
                out.add(a >> b)
                if a < 0:
                    facts.add("rshift-of-negative")
                    if has_and(node[2]):
                        facts.add("negative-through-and")
                    if has_abs(node[2]):
                        facts.add("negative-through-abs")
            elif op in ("//", "%"):
                if b == 0:
                    raise Unjudged("division by zero")
                q = abs(a) // abs(b)
                t = q if (a < 0) == (b < 0) else -q
                f = a // b
                if a < 0 or b < 0:
                    facts.add("divmod-negative-operand")
                if (a < 0 and has_abs(node[2])) or (b < 0
                                                   and has_abs(node[3])):
                    facts.add("negative-through-abs")
                if op == "//":
                    out.update((t, f))
                else:
                    out.update((a - b * t, a - b * f))
    if len(out) > 64:
        raise Unjudged("too many rounding alternatives")
    if op in SPECIAL:
        for v in out:
            if not fits(v, signed, W):
                raise Unjudged(f"result of {op} does not fit")
    if any(v < 0 for v in out):
        facts.add("negative-intermediate")
    sub = lsub + rsub + [(v, signed) for v in out]
    if len(sub) > 400:
        raise Unjudged("too many intermediates")
    return out, signed, sub


def shape(node):
    if node[0] == "const":
        c = node[1]
        return "c" + ("S" if -2**31 <= c < 2**31 else "L") \
            + ("-" if c < 0 else "")
    if node[0] in ("var", "reg"):
        return "L"
    if node[0] in ("neg", "abs"):
        return f"{node[0]}({shape(node[1])})"
    return f"({shape(node[2])}{node[1]}{shape(node[3])})"


def leaves_of(node, acc):
    if node[0] in ("var", "reg"):
        acc.append(node)
    elif node[0] in ("neg", "abs"):
        leaves_of(node[1], acc)
    elif node[0] == "bin":
        leaves_of(node[2], acc)
        leaves_of(node[3], acc)
    return acc


def ops_of(node, acc):
    if node[0] in ("neg", "abs"):
        acc.append(node[0])
        ops_of(node[1], acc)
    elif node[0] == "bin":
        acc.append(node[1])
        ops_of(node[2], acc)
        ops_of(node[3], acc)
    return acc


# -------------------------------------------------------------- execution

def to_dsl(node, e):
    k = node[0]
    if k == "const":
        return node[1]
    if k == "var":
        return getattr(e, node[1])
    if k == "reg":
        return getattr(e, node[1])[node[2]]
    if k == "neg":
        return -to_dsl(node[1], e)
    if k == "abs":
        return abs(to_dsl(node[1], e))
    return PYOP[node[1]](to_dsl(node[2], e), to_dsl(node[3], e))


def assign(e, dst, value):
    if dst[0] == "var":
        setattr(e, dst[1], value)
    else:
        getattr(e, dst[1])[dst[2]] = value


def run_case(case):
    decls, regs, dst, aug, expr = (case[k] for k in
                                   ("decls", "regs", "dst", "aug", "expr"))
    fmts = {d["name"]: d["fmt"] for d in decls}
    dstfmt = leaf_fmt(dst, fmts)
    full = ["bin", aug, dst, expr] if aug else expr
    lv = leaves_of(full, [dst])
    W = 32 if any(dsl.SIZES[leaf_fmt(n, fmts)] <= 4 for n in lv) else 64
    ops = ops_of(full, [])
    dkind = dst[0] if dst[0] == "reg" else \
        [d["kind"] for d in decls if d["name"] == dst[1]][0]
    classes = [f"W={W}", f"dst={dkind}:{dstfmt}"] \
        + [f"op{o}" for o in sorted(set(ops))]
    if aug:
        classes.append("aug")

    def body(e, prog):
        if aug:
            cur = to_dsl(dst, e)
            assign(e, dst, PYIOP[aug](cur, to_dsl(expr, e)))
        else:
            assign(e, dst, to_dsl(expr, e))

    with kernel.tracking() as tracker:
        try:
            prog = dsl.Program(decls, regs, body)
            status = prog.assemble(tracker)
        except AssembleError as err:
            return dict(ok=True, nontrivial=False,
                        classes=classes + ["rejected:AssembleError"])
        except HarnessError:
            raise
        except Exception as err:
            return dict(ok=True, nontrivial=False, classes=classes + [
                f"build-error:{type(err).__name__}"])
        if status == "rejected":
            return dict(ok=True, nontrivial=False,
                        classes=classes + ["rejected:AssembleError"])
        if status == "verifier":
            classes.append("verifier-rejected")
        judged = 0
        key = repr((shape(full), aug, dkind, dstfmt,
                    sorted((n[0], leaf_fmt(n, fmts)) for n in lv)))
        size = dsl.SIZES[dstfmt]
        for vec in case["vectors"]:
            facts = set()
            try:
                expected, _, _ = ev(full, vec, fmts, W, facts)
            except Unjudged as u:
                # still execute: the differential check runs on every vector
                obs = prog.run(vec, tracker)
                classes.append("unjudged")
                continue
            obs = prog.run(vec, tracker)
            if obs.fault:
                return dict(ok=False, nontrivial=True, classes=classes,
                            facts=sorted(facts), key=key,
                            what=f"generated code faults: {obs.fault}; "
                                 f"{describe(case, vec)}")
            out = prog.read_outputs(obs)
            if not out["__ran"]:
                raise HarnessError("program body did not run")
            name = leaf_name(dst)
            if name not in out:
                return dict(ok=False, nontrivial=True, classes=classes,
                            facts=sorted(facts), key=key,
                            what=f"destination register unset; "
                                 f"{describe(case, vec)}")
            got = out[name] & ((1 << (8 * size)) - 1)
            want = {v & ((1 << (8 * size)) - 1) for v in expected}
            judged += 1
            if got not in want:
                return dict(
                    ok=False, nontrivial=True, classes=classes,
                    facts=sorted(facts), key=key, W=W,
                    bucket=(sorted(facts), sorted(set(ops)), W, dkind + ":" + dstfmt),
                    what=(f"{describe(case, vec)}: destination holds "
                          f"{got:#x} ({dsl.decode_value(got, dstfmt)}), "
                          f"exact result {sorted(expected)[:4]} -> "
                          f"{[hex(w) for w in sorted(want)][:4]} (W={W})"))
        if judged:
            classes.append("judged")
        return dict(ok=True, nontrivial=bool(judged and ops), key=key,
                    judged=judged > 0, classes=classes,
                    summary={"stmt": render(case), "judged_vectors": judged})


def render_node(n):
    if n[0] == "const":
        return str(n[1])
    if n[0] == "var":
        return n[1]
    if n[0] == "reg":
        return f"{n[1]}{n[2]}"
    if n[0] in ("neg", "abs"):
        return ("-" if n[0] == "neg" else "abs") + f"({render_node(n[1])})"
    return f"({render_node(n[2])} {n[1]} {render_node(n[3])})"


def render(case):
    d = ", ".join(f"{x['name']}:{x['kind']}:{x['fmt']}" for x in case["decls"])
    return (f"[{d}] {render_node(case['dst'])} {case['aug'] or ''}= "
            f"{render_node(case['expr'])}")


def describe(case, vec):
    fm = {d["name"]: d["fmt"] for d in case["decls"]}
    fm.update({f"r{r['no']}": dsl.view_fmt(r["view"]) for r in case["regs"]})
    vals = {k: dsl.decode_value(v, fm[k]) for k, v in vec.items()}
    return f"{render(case)} with {vals}"


def _narrow_negative_in_wide_context(case, res):
    """a sub-expression over operands of <= 4 bytes is computed in 32 bit; if
    its value is negative (negative sw register, negation, subtraction ...)
    it is zero- instead of sign-extended when the statement computes in 64
    bit (destination or another operand 8 bytes wide)"""
    facts = set(res.get("facts", ()))
    if not ({"negative-sw-register", "negative-intermediate"} & facts):
        return False
    fmts = {d["name"]: d["fmt"] for d in case["decls"]}
    full = ["bin", case["aug"], case["dst"], case["expr"]] if case["aug"] \
        else case["expr"]
    lv = leaves_of(full, [case["dst"]])
    narrow = any(dsl.SIZES[leaf_fmt(n, fmts)] <= 4 for n in lv)
    wide = any(dsl.SIZES[leaf_fmt(n, fmts)] == 8 for n in lv)
    return narrow and wide


KNOWN = {
    # // and % use the unsigned DIV/MOD instructions also for signed operands
    "C01-signed-divmod":
        lambda case, res: "divmod-negative-operand" in res.get("facts", ()),
    "C01-narrow-negative-widening": _narrow_negative_in_wide_context,
    # x & y is typed unsigned even for signed operands: a negative value
    # computed through it is shifted right logically / not negated by abs
    "C01-and-result-unsigned":
        lambda case, res: "negative-through-and" in res.get("facts", ()),
    # r - c (64 bit unsigned register, positive constant) is built as
    # r + (-c) and typed signed through the negated constant; same root cause
    # as C03-unsigned-register-minus-const
    "C01-unsigned-register-minus-const":
        lambda case, res: "unsigned-register-minus-const-topbit"
        in res.get("facts", ()),
    # abs(x) is typed unsigned also for a signed x, so a negative value
    # computed from it and unsigned operands (0 - abs(v), abs(v) - 5) is
    # treated as unsigned by the next abs / >> / // / %
    "C01-abs-result-unsigned":
        lambda case, res: "negative-through-abs" in res.get("facts", ()),
    # abs() treats an unsigned 64 bit operand with bit 63 set as negative
    "C01-abs-unsigned-topbit":
        lambda case, res: "abs-unsigned-topbit" in res.get("facts", ()),
}
