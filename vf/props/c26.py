"""C26 The fast Motor device commands exactly its limited control law

domain : a FastSyncGroup with the bundled Motor on an EL7041-like terminal
         (16 bit velocity output, 32 bit signed position input, two limit
         switch bits, enable bit); all inputs from the boundary pool under the
         stated preconditions: velocity limit within int16, previous velocity
         within the limit, desired velocity within 64 bits.
oracle : exact reference of the stated law in Z:
           d = gain * (target - position)
           v = clamp(d, prev - acc, prev + acc)
           v = clamp(v, -limit, +limit)
           v = 0 if (low switch and v < 0) or (high switch and v > 0)
         every input taking the value its declared format defines.
"""
import struct

from hypothesis import strategies as st

from ebpfcat.ebpf import AssembleError

from ..gen import dsl
from ..runner import HarnessError
from ..sim import groups
from ..vm import kernel

ID = "C26"
LEVEL = "exploration"
TECHNIQUE = ("property-based testing of the generated Motor program "
             "(interpreter + kernel) against an exact integer reference of "
             "the control law; boundary-biased sampling, not universal "
             "quantification")
RULE = ("Hypothesis draws (target, position, gain, acceleration limit, "
        "velocity limit, previous velocity, switches, enable, FMMU or direct "
        "addressing) biased to the 16/32 bit boundaries of the desired "
        "velocity and of the clamps; non-trivial = a clamp or a switch is "
        "active, or |d| exceeds the 16 bit range; distinct by (which clamps "
        "are active, sign of d, range class of d, switches)")
ASSUMPTIONS = [
    "the quantifier's universal quantification over bit-vectors is replaced "
    "by boundary-biased sampling",
    "DeviceVars of the Motor are unsigned 32 bit (their declared default "
    "format), the encoder input is signed 32 bit, the velocity output signed "
    "16 bit",
    "the group program runs with wkc_errors != 0 (output enabled)",
]
EXAMPLES = {"quick": 300, "thorough": 10000}
MIN_NONTRIVIAL = {"quick": 200, "thorough": 400}

B32 = [0, 1, 2, 2**15 - 1, 2**15, 2**16 - 1, 2**16, 2**31 - 1, 2**31,
       2**32 - 1, 100, 1000, 100000]


@st.composite
def case_strategy(draw):
    limit = draw(st.sampled_from([1, 500, 1000, 32767, 32766, 100])
                 | st.integers(0, 32767))
    prev = draw(st.sampled_from([0, limit, -limit, limit // 2, 1, -1])
                | st.integers(-limit, limit))
    prev = max(-limit, min(limit, prev))
    position = draw(st.sampled_from([0, 1, -1, 2**31 - 1, -2**31, 1000,
                                     -1000]) | st.integers(-2**31, 2**31 - 1))
    mode = draw(st.sampled_from(["near", "near16", "any"]))
    gain = draw(st.sampled_from([0, 1, 2, 10, 100, 1000, 65536, 2**32 - 1])
                | st.integers(0, 50))
    if mode == "near":
        target = position + draw(st.integers(-40000, 40000))
    elif mode == "near16":
        target = position + draw(st.sampled_from(
            [32767, 32768, -32768, -32769, 65535, 65536, -65536, 500, -500]))
    else:
        target = draw(st.sampled_from(B32) | st.integers(0, 2**32 - 1))
    target = max(0, min(2**32 - 1, target))
    acc = draw(st.sampled_from([0, 1, 10, 100, 1000, 32767, 65535, 200000,
                                2**31, 2**32 - 1]) | st.integers(0, 70000))
    return {"target": target, "position": position, "gain": gain,
            "acc": acc, "limit": limit, "prev": prev,
            "low": draw(st.booleans()), "high": draw(st.booleans()),
            "enable": draw(st.sampled_from([0, 1, 1, 2])),
            "fmmu": draw(st.booleans()), "seed": draw(st.integers(0, 255))}


def strategy(tier):
    return case_strategy()


def reference(c):
    d = c["gain"] * (c["target"] - c["position"])
    lo, hi = c["prev"] - c["acc"], c["prev"] + c["acc"]
    v = min(max(d, lo), hi)
    acc_active = v != d
    v2 = min(max(v, -c["limit"]), c["limit"])
    lim_active = v2 != v
    v = v2
    sw = False
    if (c["low"] and v < 0) or (c["high"] and v > 0):
        v = 0
        sw = True
    return d, v, acc_active, lim_active, sw


GROUP = {
    "terminals": [{
        "position": 1001, "use_fmmu": False,
        "in": [{"name": "low", "size": 3, "via": "packet"},
               {"name": "high", "size": 4, "via": "packet"},
               {"name": "enc", "size": "i", "via": "packet"}],
        "out": [{"name": "en", "size": 0, "via": "packet"},
                {"name": "vel", "size": "h", "via": "packet"}],
        "in_off": 0x1100, "out_off": 0x1400, "in_pad": 1, "out_pad": 2}],
    "devices": [{"type": "Motor", "links": {
        "velocity": [0, "vel"], "encoder": [0, "enc"],
        "low_switch": [0, "low"], "high_switch": [0, "high"],
        "enable": [0, "en"]}}],
}


def run_case(case):
    d, want, acc_active, lim_active, sw = reference(case)
    if not -2**63 <= d < 2**63:
        return dict(ok=True, nontrivial=False, judged=False,
                    classes=["unjudged:d-exceeds-64-bit"])
    spec = {"terminals": [dict(GROUP["terminals"][0],
                               use_fmmu=case["fmmu"])],
            "devices": GROUP["devices"]}
    rng = "d16" if -2**15 <= d < 2**15 else \
        "d32" if -2**31 <= d < 2**31 else "d64"
    classes = [rng, "acc-clamp" if acc_active else "acc-free",
               "limit-clamp" if lim_active else "limit-free",
               "switch-stop" if sw else "no-switch-stop"]
    with kernel.tracking() as tracker:
        try:
            ec, terms, devs, sg = groups.build_group(spec, "fast")
            loaded = dsl.Loaded(sg)
        except AssembleError as e:
            return dict(ok=False, nontrivial=True, classes=classes,
                        what=f"the Motor group does not assemble: {e}")
        if loaded.status != "ok":
            return dict(ok=False, nontrivial=True, classes=classes,
                        what=f"the Motor group program is refused: "
                             f"{loaded.status} {loaded.error}")
        t, m = terms[0], devs[0]
        size = max(46, sg.packet.size)
        frame = bytearray((case["seed"] + 17 * i) & 0xff
                          for i in range(size))
        ipos = sg.pdo_assign[t][groups.SyncManager.IN]
        opos = sg.pdo_assign[t][groups.SyncManager.OUT]
        lay = t.layout
        b = frame[ipos + lay["in"]["low"]] & ~0x18
        frame[ipos + lay["in"]["low"]] = b | (8 if case["low"] else 0) \
            | (16 if case["high"] else 0)
        struct.pack_into("<i", frame, ipos + lay["in"]["enc"],
                         case["position"])
        struct.pack_into("<h", frame, opos + lay["out"]["vel"], case["prev"])
        init = bytearray(type(sg).__dict__["properties"].size)
        struct.pack_into("<I", init, sg.__dict__["wkc_errors"], 1)
        for name, val in (("set_enable", case["enable"]),
                          ("max_velocity", case["limit"]),
                          ("max_acceleration", case["acc"]),
                          ("target", case["target"]),
                          ("proportional", case["gain"])):
            struct.pack_into("<I", init, m.__dict__[name], val)
        fd = dsl.array_fd(tracker, len(init))
        pkt = bytearray(14) + frame
        obs = dsl.run_both(loaded, tracker, pkt,
                           arrays={fd: (sg.properties, bytes(init))})
        if obs.fault:
            return dict(ok=False, nontrivial=True, classes=classes,
                        what=f"generated code faults: {obs.fault}")
        after = obs.packet[14:]
        got, = struct.unpack_from("<h", after, opos + lay["out"]["vel"])
        desc = (f"target={case['target']} position={case['position']} "
                f"gain={case['gain']} acc={case['acc']} limit={case['limit']}"
                f" prev={case['prev']} low={case['low']} high={case['high']}"
                f": desired d={d}")
        facts = []
        if rng != "d16":
            facts.append("desired-exceeds-int16")
        v_acc = min(max(d, case["prev"] - case["acc"]),
                    case["prev"] + case["acc"])
        if not -2**15 <= v_acc < 2**15:
            facts.append("acc-limited-exceeds-int16")
        if got != want:
            return dict(ok=False, nontrivial=True, classes=classes,
                        facts=facts, bucket=(facts, classes),
                        what=f"{desc}: velocity output {got}, the law gives "
                             f"{want}")
        en = bool(after[opos + lay["out"]["en"]] & 1)
        if en != bool(case["enable"]):
            return dict(ok=False, nontrivial=True, classes=classes,
                        what=f"{desc}: enable bit {en}, set_enable "
                             f"{case['enable']}")
        # consequences (implied by the law, checked for the evidence)
        assert abs(got) <= case["limit"]
        assert not (case["low"] and got < 0) and not (case["high"]
                                                      and got > 0)
    return dict(ok=True, nontrivial=acc_active or lim_active or sw
                or rng != "d16",
                key=repr((rng, acc_active, lim_active, sw, d > 0, d == 0,
                          case["low"], case["high"], case["fmmu"],
                          case["acc"] > 32767, case["gain"] > 1)),
                classes=classes,
                summary={"d": d, "v": want})


KNOWN = {}
