"""Common runner: ./check <ID> [--tier quick|thorough] [--replay FILE]

Every property module in vf.props exposes

    ID, LEVEL, RULE, ASSUMPTIONS, TECHNIQUE
    EXAMPLES = {"quick": n, "thorough": n}      examples per shard
    SHARDS   = {"quick": k, "thorough": k}      (optional, default 16)
    MIN_NONTRIVIAL = {"quick": n, "thorough": n}  vacuity guard -> exit 2
    strategy(tier)          Hypothesis strategy of JSON-able cases
    run_case(case) -> dict  {'ok', 'nontrivial', 'key', 'classes', 'what', ...}
    KNOWN = {finding_id: predicate(case, result)}   root-cause signatures
    enumerate_cases(tier)   optional finite enumeration (reported exhaustive)
    selftest()              optional, raises HarnessError

Exit codes: 0 held, 1 VIOLATION, 2 harness error.
"""
import argparse
import hashlib
import importlib
import json
import multiprocessing
import os
import sys
import time
import traceback
from collections import Counter

ROOT = os.path.dirname(os.path.dirname(os.path.abspath(__file__)))


class HarnessError(Exception):
    """something is wrong with the machinery, not with the code under test"""


class PropertyViolation(Exception):
    pass


# ---------------------------------------------------------------- JSON codec

def enc(obj):
    if isinstance(obj, (bytes, bytearray, memoryview)):
        return {"__b": bytes(obj).hex()}
    if isinstance(obj, dict):
        return {str(k): enc(v) for k, v in obj.items()}
    if isinstance(obj, (list, tuple)):
        return [enc(v) for v in obj]
    if isinstance(obj, (set, frozenset)):
        return sorted(enc(v) for v in obj)
    if isinstance(obj, float):
        return obj
    if isinstance(obj, (int, str, bool)) or obj is None:
        return obj
    return repr(obj)


def dec(obj):
    if isinstance(obj, dict):
        if set(obj) == {"__b"}:
            return bytes.fromhex(obj["__b"])
        return {k: dec(v) for k, v in obj.items()}
    if isinstance(obj, list):
        return [dec(v) for v in obj]
    return obj


def norm(case):
    """a case as it would come back from a replay file"""
    return dec(json.loads(json.dumps(enc(case))))


def case_hash(case):
    return hashlib.sha1(
        json.dumps(enc(case), sort_keys=True).encode()).hexdigest()[:16]


def derive_seed(seed, pid, shard):
    h = hashlib.sha256(f"{seed}:{pid}:{shard}".encode()).hexdigest()
    return int(h[:12], 16)


# ------------------------------------------------------------ known findings

def load_known(pid):
    path = os.path.join(ROOT, "known_findings.json")
    with open(path) as fin:
        data = json.load(fin)
    return [f for f in data["findings"]
            if f["property"] == pid and f["status"] == "known"]


def match_known(mod, known, case, res):
    preds = getattr(mod, "KNOWN", {})
    for f in known:
        pred = preds.get(f["id"])
        if pred is None:
            continue
        try:
            if pred(case, res):
                return f["id"]
        except Exception:
            continue
    return None


# ----------------------------------------------------------------- execution

class CaseTimeout(BaseException):
    pass


def execute(mod, case):
    """run one case; exceptions other than HarnessError that escape the
    property module's own handling are harness errors too (the modules
    catch what the code under test may legitimately raise)"""
    import signal

    def on_alarm(signum, frame):
        # BaseException, and re-armed: code that catches Exception (the
        # library's send loop does) must not be able to swallow the watchdog
        signal.alarm(5)
        raise CaseTimeout()
    limit = getattr(mod, "CASE_TIMEOUT", 120)
    try:
        old = signal.signal(signal.SIGALRM, on_alarm)
        signal.alarm(limit)
    except ValueError:      # not in the main thread
        old = None
    try:
        res = mod.run_case(case)
    except CaseTimeout:
        raise HarnessError(
            f"case did not finish within {limit}s (hang in the harness or "
            f"in the code under test): {json.dumps(enc(case))[:600]}")
    finally:
        if old is not None:
            signal.alarm(0)
            signal.signal(signal.SIGALRM, old)
    if not isinstance(res, dict) or "ok" not in res:
        raise HarnessError(f"bad result from run_case: {res!r}")
    res.setdefault("nontrivial", False)
    res.setdefault("classes", [])
    res.setdefault("key", None)
    res.setdefault("what", "")
    return res


class Shard:
    def __init__(self):
        self.evaluations = 0
        self.keys = set()
        self.classes = Counter()
        self.samples = []
        self.known = Counter()
        self.known_first = {}
        self.violation = None
        self.error = None
        self.unjudged = 0
        self.exhaustive_n = 0
        self.last_failure = None

    def record(self, case, res):
        self.evaluations += 1
        for c in res["classes"]:
            self.classes[c] += 1
        if res.get("judged") is False:
            self.unjudged += 1
        if res["nontrivial"]:
            key = res["key"] or case_hash(case)
            if key not in self.keys:
                self.keys.add(key)
                if len(self.samples) < 3:
                    self.samples.append(sample_of(case, res))

    def export(self):
        return dict(evaluations=self.evaluations, keys=self.keys,
                    classes=self.classes, samples=self.samples,
                    known=self.known, known_first=self.known_first,
                    violation=self.violation, error=self.error,
                    unjudged=self.unjudged, exhaustive_n=self.exhaustive_n)


def sample_of(case, res):
    s = {"case": enc(case)}
    if res.get("summary") is not None:
        s["observed"] = enc(res["summary"])
    txt = json.dumps(s)
    if len(txt) > 3000:
        s = {"case_truncated": txt[:3000]}
    return s


def quiet():
    import logging
    import warnings
    logging.disable(logging.CRITICAL)
    warnings.simplefilter("ignore")


def shard_main(args):
    modname, tier, seed, shard, nshards, n_examples = args
    st = Shard()
    quiet()
    try:
        mod = importlib.import_module(modname)
        known = load_known(mod.ID)
        if hasattr(mod, "setup_process"):
            mod.setup_process()

        def one(case):
            case = norm(case)
            try:
                res = execute(mod, case)
            except Exception as e:
                if type(e).__name__ != "HarnessError":
                    raise
                # keep the case: a harness error must be reproducible
                try:
                    d = os.path.join(ROOT, "out", "harness", mod.ID)
                    os.makedirs(d, exist_ok=True)
                    with open(os.path.join(d, f"shard{shard}.json"),
                              "w") as f:
                        json.dump({"property": mod.ID, "expect": "pass",
                                   "case": enc(case)}, f)
                except Exception:
                    pass
                raise
            st.record(case, res)
            if not res["ok"]:
                fid = match_known(mod, known, case, res)
                if fid is not None:
                    st.known[fid] += 1
                    st.known_first.setdefault(fid, enc(case))
                    return
                st.last_failure = (case, res)
                if os.environ.get("VERIF_COLLECT"):
                    b = str(res.get("bucket") or res["what"][:60])
                    st.known["collect:" + b] += 1
                    st.known_first.setdefault("collect:" + b, res["what"])
                    return
                raise PropertyViolation(res["what"])

        # finite enumeration part
        if hasattr(mod, "enumerate_cases"):
            for i, case in enumerate(mod.enumerate_cases(tier)):
                if i % nshards != shard:
                    continue
                st.exhaustive_n += 1
                try:
                    one(case)
                except PropertyViolation:
                    st.violation = (enc(st.last_failure[0]),
                                    enc(strip(st.last_failure[1])))
                    return st.export()

        if n_examples > 0 and hasattr(mod, "strategy"):
            import hypothesis
            from hypothesis import HealthCheck, Phase, Verbosity, given, settings
            phases = [Phase.generate, Phase.target]
            if tier == "thorough" or os.environ.get("VERIF_SHRINK"):
                phases.append(Phase.shrink)
            sett = settings(
                max_examples=n_examples, database=None, deadline=None,
                derandomize=False, report_multiple_bugs=False,
                phases=phases, verbosity=Verbosity.quiet,
                suppress_health_check=[HealthCheck.too_slow,
                                       HealthCheck.data_too_large,
                                       HealthCheck.large_base_example])

            @hypothesis.seed(derive_seed(seed, mod.ID, shard))
            @sett
            @given(mod.strategy(tier))
            def test(case):
                one(case)

            try:
                test()
            except PropertyViolation:
                st.violation = (enc(st.last_failure[0]),
                                enc(strip(st.last_failure[1])))
            except Exception as e:
                # Hypothesis re-runs a failing case; a violation that depends
                # on state outside the case (buffers shared between calls,
                # garbage collection) need not show again.  The first
                # observation stands - the case and what was observed are
                # recorded.
                if type(e).__name__ not in ("FlakyFailure", "Flaky") \
                        or st.last_failure is None:
                    raise
                res = dict(st.last_failure[1])
                res["what"] = res.get("what", "") + (
                    " [observed once; did not show again when the case was "
                    "re-run immediately: depends on state outside the case]")
                st.violation = (enc(st.last_failure[0]), enc(strip(res)))
    except HarnessError as e:
        st.error = f"HarnessError: {e}\n{traceback.format_exc()}"
    except BaseException as e:  # anything else is a bug in /verif
        st.error = f"{type(e).__name__}: {e}\n{traceback.format_exc()}"
    return st.export()


def strip(res):
    return {k: v for k, v in res.items() if k not in ("classes",)}


# --------------------------------------------------------------------- main

def write_violation(pid, seed, tier, case, res):
    d = os.path.join(ROOT, "out", "violations", pid)
    os.makedirs(d, exist_ok=True)
    path = os.path.join(d, f"{case_hash(case)}.json")
    with open(path, "w") as fout:
        json.dump({"property": pid, "expect": "pass", "seed": seed,
                   "tier": tier, "case": case, "observed": res},
                  fout, indent=1)
    return path


def replay_file(mod, known, path):
    with open(path) as fin:
        data = json.load(fin)
    case = dec(data["case"])
    res = execute(mod, case)
    fid = None
    if not res["ok"]:
        fid = match_known(mod, known, case, res)
    return data, case, res, fid


def main(argv=None):
    ap = argparse.ArgumentParser()
    ap.add_argument("id")
    ap.add_argument("--tier", default=os.environ.get("VERIF_TIER") or "quick",
                    choices=["quick", "thorough"])
    ap.add_argument("--replay")
    ap.add_argument("--examples", type=int)
    ap.add_argument("--shards", type=int)
    a = ap.parse_args(argv)
    pid = a.id.upper()
    tier = a.tier
    try:
        seed = int(os.environ.get("VERIF_SEED") or 1)
    except ValueError:
        seed = 1
    t0 = time.time()
    quiet()
    sys.path[:] = [p for p in sys.path if p not in ("", ".")]
    try:
        import ebpfcat
        # VF_DEV_REPO: developer-only (tools/devcheck.sh runs a scratch copy
        # of the tree with a seeded change); registered commands never set it
        repo = os.environ.get("VF_DEV_REPO", "/repo").rstrip("/") + "/"
        if not os.path.abspath(ebpfcat.__file__).startswith(repo):
            raise HarnessError(f"ebpfcat imported from {ebpfcat.__file__}")
        modname = f"vf.props.{pid.lower()}"
        mod = importlib.import_module(modname)
        known = load_known(pid)
    except Exception:
        traceback.print_exc()
        print(f"HARNESS-ERROR property={pid} cannot import")
        return 2

    # ----- single replay
    if a.replay:
        try:
            if hasattr(mod, "setup_process"):
                mod.setup_process()
            data, case, res, fid = replay_file(mod, known, a.replay)
        except Exception:
            traceback.print_exc()
            print(f"HARNESS-ERROR property={pid} replay failed to run")
            return 2
        print(json.dumps(enc(strip(res)), indent=1)[:4000])
        if res["ok"]:
            print(f"replay passes: {a.replay}")
            return 0
        if fid:
            print(f"KNOWN-FINDING: property={pid} {fid}: {res['what']}")
            return 0
        print(f"VIOLATION property={pid} replay={a.replay}")
        return 1

    violations = []
    known_hits = Counter()
    known_pinned = {}
    total = Shard()
    errors = []

    # ----- self test of the harness models
    try:
        if hasattr(mod, "selftest"):
            mod.selftest()
    except Exception:
        traceback.print_exc()
        print(f"HARNESS-ERROR property={pid} selftest failed")
        return 2

    # ----- replay tier
    rdir = os.path.join(ROOT, "replays", pid)
    replayed = 0
    if os.path.isdir(rdir):
        if hasattr(mod, "setup_process"):
            mod.setup_process()
        for name in sorted(os.listdir(rdir)):
            if not name.endswith(".json"):
                continue
            path = os.path.join(rdir, name)
            try:
                data, case, res, fid = replay_file(mod, known, path)
            except Exception:
                traceback.print_exc()
                print(f"HARNESS-ERROR property={pid} replay {path}")
                return 2
            replayed += 1
            total.record(case, res)
            if res["ok"]:
                continue
            if fid is not None:
                known_pinned[fid] = res["what"]
                continue
            violations.append((path, res["what"]))

    # ----- generated tier
    nshards = a.shards or getattr(mod, "SHARDS", {}).get(tier, 16)
    n_examples = a.examples if a.examples is not None \
        else mod.EXAMPLES.get(tier, 100)
    jobs = [(modname, tier, seed, i, nshards, n_examples)
            for i in range(nshards)]
    if nshards == 1:
        results = [shard_main(jobs[0])]
    else:
        # non-daemonic workers (a case may spawn a child process itself)
        from concurrent.futures import ProcessPoolExecutor
        ctx = multiprocessing.get_context("fork")
        with ProcessPoolExecutor(min(nshards, os.cpu_count() or 1),
                                 mp_context=ctx) as pool:
            results = list(pool.map(shard_main, jobs))
    for r in results:
        total.evaluations += r["evaluations"]
        total.keys |= r["keys"]
        total.classes.update(r["classes"])
        total.unjudged += r["unjudged"]
        total.exhaustive_n += r["exhaustive_n"]
        for s in r["samples"]:
            if len(total.samples) < 6:
                total.samples.append(s)
        known_hits.update(r["known"])
        for k, v in r["known_first"].items():
            total.known_first.setdefault(k, v)
        if r["error"]:
            errors.append(r["error"])
        if r["violation"]:
            case, res = r["violation"]
            path = write_violation(pid, seed, tier, case, res)
            violations.append((path, res.get("what", "")))

    wall = time.time() - t0
    known_lines = []
    for f in known:
        fid = f["id"]
        if fid in known_pinned or known_hits[fid]:
            known_lines.append(
                f"KNOWN-FINDING: property={pid} {fid}: {f['what']} "
                f"(pinned={'fails' if fid in known_pinned else 'n/a'}, "
                f"random hits={known_hits[fid]})")

    exhaustive = bool(total.exhaustive_n) and n_examples == 0
    coverage = {
        "evaluations": total.evaluations,
        "distinct_nontrivial": len(total.keys),
        "rule": mod.RULE,
        "samples": total.samples,
        "classes": dict(sorted(total.classes.items())),
        "replayed_files": replayed,
        "unjudged": total.unjudged,
        "known_finding_hits": dict(known_hits),
        "known_finding_pinned": sorted(known_pinned),
        "enumerated_cases": total.exhaustive_n,
        "exhaustive": exhaustive,
        "shards": nshards,
        "examples_per_shard": n_examples,
    }
    if hasattr(mod, "extra_coverage"):
        coverage.update(mod.extra_coverage(tier))
    evidence = {
        "property_id": pid, "tier": tier, "seed": seed, "level": mod.LEVEL,
        "coverage": coverage,
        "assumptions": list(mod.ASSUMPTIONS),
        "wall_s": round(wall, 2),
        "violations": len(violations),
    }
    os.makedirs(os.path.join(ROOT, "evidence"), exist_ok=True)
    with open(os.path.join(ROOT, "evidence", f"{pid}.json"), "w") as fout:
        json.dump(evidence, fout, indent=1)

    print(f"{pid} tier={tier} seed={seed}: {total.evaluations} cases, "
          f"{len(total.keys)} distinct non-trivial, {replayed} replays, "
          f"{total.unjudged} unjudged, {wall:.1f}s")
    top = ", ".join(f"{k}={v}" for k, v in
                    sorted(total.classes.items(), key=lambda kv: -kv[1])[:25])
    if top:
        print(f"  classes: {top}")
    for line in known_lines:
        print(line)
    if os.environ.get("VERIF_COLLECT"):
        for k, v in sorted(known_hits.items(), key=lambda kv: -kv[1]):
            if k.startswith("collect:"):
                print(f"  BUCKET {v:5d} {k[8:]}\n        e.g. {total.known_first.get(k)}"[:900])
    if violations:
        # a violation has a replay file and stands on its own, whatever
        # happened in other shards
        for path, what in violations:
            print(f"  violation: {what[:600]}")
            print(f"VIOLATION property={pid} replay={path}")
        if errors:
            print(f"  (in addition {len(errors)} shard(s) ended with a "
                  f"harness error: {errors[0].strip().splitlines()[-1][:200]})")
        return 1
    if errors:
        print(errors[0])
        print(f"HARNESS-ERROR property={pid} ({len(errors)} shard(s))")
        return 2
    minimum = getattr(mod, "MIN_NONTRIVIAL", {}).get(tier, 2)
    if a.examples is None and len(total.keys) < max(2, minimum):
        print(f"HARNESS-ERROR property={pid} only {len(total.keys)} "
              f"non-trivial cases (< {minimum}): generator broke")
        return 2
    return 0


if __name__ == "__main__":
    sys.exit(main())
