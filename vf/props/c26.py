"""C26 The fast Motor device commands exactly its limited control law

domain : a FastSyncGroup with one or two bundled Motors, each on its own
         EL7041-like terminal of one type (16 bit velocity output, 32 or 64
         bit signed position input, two limit switch bits, enable bit); all
         inputs from the boundary pool under the
         stated preconditions: velocity limit within int16, previous velocity
         within the limit, desired velocity within 64 bits.
oracle : exact reference of the stated law in Z:
           d = gain * (target - position)
           v = clamp(d, prev - acc, prev + acc)
           v = clamp(v, -limit, +limit)
           v = 0 if (low switch and v < 0) or (high switch and v > 0)
         every input taking the value its declared format defines.
"""
import struct

from hypothesis import strategies as st

from ebpfcat.ebpf import AssembleError

from ..gen import dsl
from ..runner import HarnessError
from ..sim import groups
from ..vm import kernel

ID = "C26"
LEVEL = "exploration"
TECHNIQUE = ("property-based testing of the generated Motor program "
             "(interpreter + kernel) against an exact integer reference of "
             "the control law; boundary-biased sampling, not universal "
             "quantification")
RULE = ("Hypothesis draws (target, position, gain, acceleration limit, "
        "velocity limit, previous velocity, switches, enable, FMMU or direct "
        "addressing) biased to the 16/32 bit boundaries of the desired "
        "velocity and of the clamps; non-trivial = a clamp or a switch is "
        "active, or |d| exceeds the 16 bit range; distinct by (which clamps "
        "are active, sign of d, range class of d, switches)")
ASSUMPTIONS = [
    "the quantifier's universal quantification over bit-vectors is replaced "
    "by boundary-biased sampling",
    "DeviceVars of the Motor are unsigned 32 bit (their declared default "
    "format), the encoder input is signed 32 or 64 bit, the velocity "
    "output signed 16 bit",
    "the group program runs with wkc_errors != 0 (output enabled)",
]
EXAMPLES = {"quick": 300, "thorough": 6000}
MIN_NONTRIVIAL = {"quick": 200, "thorough": 400}

B32 = [0, 1, 2, 2**15 - 1, 2**15, 2**16 - 1, 2**16, 2**31 - 1, 2**31,
       2**32 - 1, 100, 1000, 100000]


@st.composite
def case_strategy(draw):
    case = draw(motor_inputs())
    case["fmmu"] = draw(st.booleans())
    case["seed"] = draw(st.integers(0, 255))
    # the terminal declares its variables by packet position or by the
    # object they are mapped from
    case["via"] = draw(st.sampled_from(["packet", "process"]))
    case["first_group"] = draw(st.sampled_from([False, False, True]))
    # a second motor on a second terminal of the same type, own inputs
    case["other"] = draw(st.none() | motor_inputs())
    return case


@st.composite
def motor_inputs(draw):
    limit = draw(st.sampled_from([1, 500, 1000, 32767, 32766, 100])
                 | st.integers(0, 32767))
    prev = draw(st.sampled_from([0, limit, -limit, limit // 2, 1, -1])
                | st.integers(-limit, limit))
    prev = max(-limit, min(limit, prev))
    position = draw(st.sampled_from([0, 1, -1, 2**31 - 1, -2**31, 1000,
                                     -1000]) | st.integers(-2**31, 2**31 - 1))
    mode = draw(st.sampled_from(["near", "near16", "any"]))
    gain = draw(st.sampled_from([0, 1, 2, 10, 100, 1000, 65536, 2**32 - 1])
                | st.integers(0, 50))
    if mode == "near":
        target = position + draw(st.integers(-40000, 40000))
    elif mode == "near16":
        target = position + draw(st.sampled_from(
            [32767, 32768, -32768, -32769, 65535, 65536, -65536, 500, -500]))
    else:
        target = draw(st.sampled_from(B32) | st.integers(0, 2**32 - 1))
    target = max(0, min(2**32 - 1, target))
    acc = draw(st.sampled_from([0, 1, 10, 100, 1000, 32767, 65535, 200000,
                                2**31, 2**32 - 1]) | st.integers(0, 70000))
    enc = draw(st.sampled_from(["i", "i", "q"]))
    if enc == "q" and draw(st.booleans()):
        # a 64 bit encoder far away: the desired velocity comes close to
        # the ends of the 64 bit range (within the acceleration limit of it)
        gain = draw(st.sampled_from([1, 1, 2, 3]))
        edge = draw(st.sampled_from([2**63 - 1, -2**63]))
        off = draw(st.sampled_from([0, 1, acc, acc + 1, max(acc - 1, 0),
                                    2 * acc, 70000]))
        d = edge - off if edge > 0 else edge + off
        position = max(-2**63, min(2**63 - 1, target - d // gain))
    return {"target": target, "position": position, "gain": gain,
            "acc": acc, "limit": limit, "prev": prev, "enc": enc,
            "low": draw(st.booleans()), "high": draw(st.booleans()),
            "enable": draw(st.sampled_from([0, 1, 1, 2]))}


def strategy(tier):
    return case_strategy()


def reference(c):
    d = c["gain"] * (c["target"] - c["position"])
    lo, hi = c["prev"] - c["acc"], c["prev"] + c["acc"]
    v = min(max(d, lo), hi)
    acc_active = v != d
    v2 = min(max(v, -c["limit"]), c["limit"])
    lim_active = v2 != v
    v = v2
    sw = False
    if (c["low"] and v < 0) or (c["high"] and v > 0):
        v = 0
        sw = True
    return d, v, acc_active, lim_active, sw


GROUP = {
    "terminals": [{
        "position": 1001, "use_fmmu": False,
        "in": [{"name": "low", "size": 3, "via": "packet"},
               {"name": "high", "size": 4, "via": "packet"},
               {"name": "enc", "size": "i", "via": "packet"}],
        "out": [{"name": "en", "size": 0, "via": "packet"},
                {"name": "vel", "size": "h", "via": "packet"}],
        "in_off": 0x1100, "out_off": 0x1400, "in_pad": 1, "out_pad": 2}],
    "devices": [{"type": "Motor", "links": {
        "velocity": [0, "vel"], "encoder": [0, "enc"],
        "low_switch": [0, "low"], "high_switch": [0, "high"],
        "enable": [0, "en"]}}],
}


def group_spec(case, motors):
    term = dict(GROUP["terminals"][0], use_fmmu=case["fmmu"])
    terms, devs = [], []
    for k, m in enumerate(motors):
        via = case.get("via", "packet")
        t = dict(term, position=1001 + k,
                 **{"in": [dict(v, via=via, size=m.get("enc", "i")
                                if v["name"] == "enc" else v["size"])
                           for v in term["in"]],
                    "out": [dict(v, via=via) for v in term["out"]]})
        terms.append(t)
        devs.append({"type": "Motor", "links": {
            key: [k, name] for key, (_, name)
            in GROUP["devices"][0]["links"].items()}})
    return {"terminals": terms, "devices": devs}


def run_case(case):
    motors = [case] + ([case["other"]] if case.get("other") else [])
    refs = [reference(m) for m in motors]
    if any(not -2**63 <= r[0] < 2**63 for r in refs):
        return dict(ok=True, nontrivial=False, judged=False,
                    classes=["unjudged:d-exceeds-64-bit"])
    spec = group_spec(case, motors)
    d, want, acc_active, lim_active, sw = refs[0]
    rng = "d16" if -2**15 <= d < 2**15 else \
        "d32" if -2**31 <= d < 2**31 else "d64"
    classes = [rng, "acc-clamp" if acc_active else "acc-free",
               "limit-clamp" if lim_active else "limit-free",
               "switch-stop" if sw else "no-switch-stop",
               f"encoder={case.get('enc', 'i')}", f"motors={len(motors)}"]
    if abs(d) >= 2**63 - 1 - max(case["acc"], 70000):
        classes.append("d-near-64-bit-end")
    with kernel.tracking() as tracker:
        try:
            if case.get("first_group"):
                # the motors were in another fast group before (other
                # devices, other frame layout); then they are put, together
                # with an input device on a terminal in front of theirs,
                # into the group that is judged
                from ebpfcat.ebpfcat import FastEtherCat, FastSyncGroup
                spec["terminals"].append({
                    "position": 990, "use_fmmu": False,
                    "in": [{"name": "x0", "size": "I", "via": "packet"},
                           {"name": "x1", "size": "H", "via": "packet"}],
                    "out": [], "in_off": 0x1100, "out_off": 0x1400,
                    "in_pad": 1, "out_pad": 0})
                ec = FastEtherCat("verif")
                shared = {}
                terms = [groups.make_terminal(ec, t, i, shared)
                         for i, t in enumerate(spec["terminals"])]
                devs = [groups.make_device(d, terms)
                        for d in spec["devices"]]
                extra = groups.make_device(
                    {"type": "AnalogInput",
                     "links": {"data": [len(terms) - 1, "x0"]}}, terms)
                first = FastSyncGroup(ec, devs[::-1])
                first.allocate()
                dsl.Loaded(first)
                sg = FastSyncGroup(ec, [extra] + devs)
                sg.allocate()
                classes.append("motors-were-in-another-group")
            else:
                ec, terms, devs, sg = groups.build_group(spec, "fast")
            loaded = dsl.Loaded(sg)
        except AssembleError as e:
            return dict(ok=False, nontrivial=True, classes=classes,
                        what=f"the Motor group does not assemble: {e}")
        except HarnessError:
            raise
        except Exception as e:
            return dict(ok=False, nontrivial=True, classes=classes,
                        what=f"building a group of {len(motors)} Motor(s) on "
                             f"terminals of one type raised "
                             f"{type(e).__name__}: {e}")
        if loaded.status != "ok":
            return dict(ok=False, nontrivial=True, classes=classes,
                        what=f"the Motor group program is refused: "
                             f"{loaded.status} {loaded.error}")
        size = max(46, sg.packet.size)
        frame = bytearray((case["seed"] + 17 * i) & 0xff
                          for i in range(size))
        init = bytearray(type(sg).__dict__["properties"].size)
        struct.pack_into("<I", init, sg.__dict__["wkc_errors"], 1)
        where = []
        for t, m, c in zip(terms, devs, motors):
            if t not in sg.pdo_assign:
                return dict(ok=False, nontrivial=True, classes=classes,
                            what=f"terminal {t.name} of a Motor is not part "
                                 f"of the group's frame ({len(motors)} "
                                 f"motors on terminals of one type)")
            ipos = sg.pdo_assign[t][groups.SyncManager.IN]
            opos = sg.pdo_assign[t][groups.SyncManager.OUT]
            lay = t.layout
            b = frame[ipos + lay["in"]["low"]] & ~0x18
            frame[ipos + lay["in"]["low"]] = b | (8 if c["low"] else 0) \
                | (16 if c["high"] else 0)
            struct.pack_into("<" + c.get("enc", "i"), frame,
                             ipos + lay["in"]["enc"], c["position"])
            struct.pack_into("<h", frame, opos + lay["out"]["vel"], c["prev"])
            for name, val in (("set_enable", c["enable"]),
                              ("max_velocity", c["limit"]),
                              ("max_acceleration", c["acc"]),
                              ("target", c["target"]),
                              ("proportional", c["gain"])):
                struct.pack_into("<I", init, m.__dict__[name], val)
            where.append((opos, lay))
        fd = dsl.array_fd(tracker, len(init),
                          last=bool(case.get("first_group")))
        pkt = bytearray(14) + frame
        obs = dsl.run_both(loaded, tracker, pkt,
                           arrays={fd: (sg.properties, bytes(init))})
        if obs.fault:
            return dict(ok=False, nontrivial=True, classes=classes,
                        what=f"generated code faults: {obs.fault}")
        after = obs.packet[14:]
        for k, (c, ref, (opos, lay)) in enumerate(zip(motors, refs, where)):
            d, want = ref[0], ref[1]
            got, = struct.unpack_from("<h", after, opos + lay["out"]["vel"])
            desc = (f"motor {k + 1} of {len(motors)}: target={c['target']} "
                    f"position={c['position']} ({c.get('enc', 'i')}) "
                    f"gain={c['gain']} acc={c['acc']} limit={c['limit']}"
                    f" prev={c['prev']} low={c['low']} high={c['high']}"
                    f": desired d={d}")
            facts = []
            if not -2**15 <= d < 2**15:
                facts.append("desired-exceeds-int16")
            v_acc = min(max(d, c["prev"] - c["acc"]), c["prev"] + c["acc"])
            if not -2**15 <= v_acc < 2**15:
                facts.append("acc-limited-exceeds-int16")
            if got != want:
                return dict(ok=False, nontrivial=True, classes=classes,
                            facts=facts, bucket=(facts, classes),
                            what=f"{desc}: velocity output {got}, the law "
                                 f"gives {want}")
            en = bool(after[opos + lay["out"]["en"]] & 1)
            if en != bool(c["enable"]):
                return dict(ok=False, nontrivial=True, classes=classes,
                            what=f"{desc}: enable bit {en}, set_enable "
                                 f"{c['enable']}")
            # consequences (implied by the law, checked for the evidence)
            assert abs(got) <= c["limit"]
            assert not (c["low"] and got < 0) and not (c["high"] and got > 0)
    d, want = refs[0][0], refs[0][1]
    return dict(ok=True, nontrivial=acc_active or lim_active or sw
                or rng != "d16",
                key=repr((rng, acc_active, lim_active, sw, d > 0, d == 0,
                          case["low"], case["high"], case["fmmu"],
                          case["acc"] > 32767, case["gain"] > 1,
                          case.get("enc", "i"), len(motors),
                          "d-near-64-bit-end" in classes)),
                classes=classes,
                summary={"d": d, "v": want})


KNOWN = {}
