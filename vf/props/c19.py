"""C19 Process variables access their own bits and bytes on both paths

domain : 1-3 terminals with random process-data layouts (struct formats and
         single bits, declared through PacketDesc, ProcessDesc and Struct
         channels with offsets, FMMU or direct addressing), a device linking
         1-6 TerminalVars for reading and writing, random frame contents and
         values.
oracle : struct on the frame bytes at the variable's own place in its
         terminal's region; the same check is applied to the Python path (slow
         SyncGroup, current_data) and to the generated program of a
         FastSyncGroup run on the same frame, so both must agree.
"""
import struct

from hypothesis import strategies as st

from ebpfcat.ebpf import AssembleError
from ebpfcat.ebpfcat import (
    Device, DeviceVar, FastEtherCat, FastSyncGroup, PacketDesc, ProcessDesc,
    Struct, SyncGroup, SyncManager, TerminalVar, EBPFTerminal)

from ..gen import dsl
from ..runner import HarnessError
from ..sim import groups
from ..vm import kernel

ID = "C19"
LEVEL = "exploration"
TECHNIQUE = ("property-based differential testing of the two access paths "
             "(Python on a slow group's buffer; generated program of a fast "
             "group in interpreter and kernel) against struct on the frame")
RULE = ("Hypothesis draws (terminal layouts, 1-6 links with read/write role, "
        "frame seed, values); non-trivial = at least one multi-byte or bit "
        "variable is written and another variable of the same terminal is "
        "read on both paths; distinct by (variable formats/declaration kinds "
        "per link, addressing modes)")
ASSUMPTIONS = [
    "the region of a terminal in the frame is the one pdo_assign reports "
    "(its correctness is C18's subject)",
    "values written lie in the range of the variable's format (the Python "
    "path raises struct.error otherwise)",
    "the fast program is run with wkc_errors != 0 so that it processes the "
    "frame; bytes outside the terminal regions are C21's subject",
]
EXAMPLES = {"quick": 250, "thorough": 2500}
MIN_NONTRIVIAL = {"quick": 250, "thorough": 4000}


@st.composite
def case_strategy(draw):
    nt = draw(st.integers(1, 3))
    terms = []
    for i in range(nt):
        t = draw(groups.terminal_strategy(i))
        for d in ("in", "out"):
            for v in t[d]:
                v["via"] = draw(st.sampled_from(["packet", "process",
                                                 "struct", "override",
                                                 "sprocess"]))
                if v["via"] == "override":
                    v["mapped"] = draw(st.sampled_from(
                        "BH" if isinstance(v["size"], int) else "BHIQ"))
        t["struct_off"] = [draw(st.integers(0, 3)), draw(st.integers(0, 3))]
        # offset of the channel in the CoE index space (Struct's third
        # parameter), used by process variables declared inside the channel
        t["coe_off"] = draw(st.sampled_from([0, 0x100, 0x200, 0x800]))
        if terms and draw(st.integers(0, 2)) == 0:
            # another terminal of the same type as the previous one
            import copy
            t = dict(copy.deepcopy(terms[-1]), position=t["position"],
                     use_fmmu=t["use_fmmu"])
        terms.append(t)
    if draw(st.integers(0, 5)) == 0:
        # a frame beyond 1 kB: the first terminal has a large process image
        if not terms[0]["in"]:
            terms[0]["in"].append({"name": "i8", "size": "H",
                                   "via": "packet"})
        terms[0]["in_pad"] = draw(st.sampled_from([1000, 1024, 1100]))
    cands = [(ti, d, v["name"]) for ti, t in enumerate(terms)
             for d in ("in", "out") for v in t[d]]
    if not cands:
        terms[0]["in"].append({"name": "i9", "size": "H", "via": "packet"})
        cands = [(0, "in", "i9")]
    links = []
    for _ in range(draw(st.integers(1, 6))):
        ti, d, name = draw(st.sampled_from(cands))
        role = "read" if d == "in" else draw(st.sampled_from(["read",
                                                              "write"]))
        links.append({"term": ti, "dir": d, "var": name, "role": role,
                      "value": draw(st.integers(-2**63, 2**63 - 1)
                                    | st.sampled_from([0, 1, 2, -1, 255,
                                                       65535, 2**31]))})
    return {"terminals": terms, "links": links,
            "seed": draw(st.integers(0, 255))}


def strategy(tier):
    return case_strategy()


def make_terminal(ec, spec, index, classes=None):
    """like groups.make_terminal, plus Struct channels with offsets;
    terminals of the same description are instances of one class"""
    posmap = {}
    ns = {}
    pdos = {}
    sns = {}
    soff = spec["struct_off"]
    sizes = {}
    for direction, sm, shift in (("in", SyncManager.IN, soff[0]),
                                 ("out", SyncManager.OUT, soff[1])):
        pm, total = groups.layout(spec[direction])
        # struct members sit `shift` bytes further: keep room at the end
        sizes[direction] = total
        for k, v in enumerate(spec[direction]):
            p = pm[v["name"]]
            posmap[v["name"]] = p
            if v["via"] == "packet":
                ns[v["name"]] = PacketDesc(sm, p, v["size"])
            elif v["via"] == "process":
                idx = (0x6000 if direction == "in" else 0x7000) + 0x10 * k
                ns[v["name"]] = ProcessDesc(idx, 1)
                pdos[idx, 1] = (sm, p, v["size"])
            elif v["via"] == "sprocess":
                # a process variable declared inside a Struct channel: its
                # index is relative to the channel's CoE offset
                idx = (0x6000 if direction == "in" else 0x7000) + 0x10 * k
                coe = spec.get("coe_off", 0)
                sns[v["name"]] = ProcessDesc(idx, 1)
                if coe:
                    # channel 1's: elsewhere, and bits at another bit number
                    pdos[idx, 1] = (sm, 0, (v["size"] + 1) % 8 if isinstance(
                        v["size"], int) else v["size"])
                pdos[idx + coe, 1] = (sm, p, v["size"])
            elif v["via"] == "override":
                # the mapping says v["mapped"], the descriptor knows better
                idx = (0x6000 if direction == "in" else 0x7000) + 0x10 * k
                ns[v["name"]] = ProcessDesc(idx, 1, v["size"])
                pdos[idx, 1] = (sm, p, v["mapped"])
            else:
                if p - shift < 0:
                    ns[v["name"]] = PacketDesc(sm, p, v["size"])
                    v = dict(v, via="packet")
                else:
                    sns[v["name"]] = PacketDesc(sm, p - shift, v["size"])
    if sns:
        Ch = type("Ch", (Struct,), sns)
        ns["ch"] = Ch(soff[0], soff[1], spec.get("coe_off", 0))
        if spec.get("coe_off", 0):
            ns["ch0"] = Ch(0, 0, 0)      # the first channel of the terminal
    key = repr((spec["in"], spec["out"], soff, spec.get("coe_off", 0)))
    if classes is not None and key in classes:
        cls = classes[key]
    else:
        cls = type(f"T{index}", (EBPFTerminal,), ns)
        if classes is not None:
            classes[key] = cls
    t = cls(ec)
    t.name = f"T{index}"
    t.position = spec["position"]
    t.pdos = pdos
    t.use_fmmu = spec["use_fmmu"]
    t.pdo_in_sz = sizes["in"] + (spec["in_pad"] if sizes["in"] else 0)
    t.pdo_out_sz = sizes["out"] + (spec["out_pad"] if sizes["out"] else 0)
    t.pdo_in_off = spec["in_off"]
    t.pdo_out_off = spec["out_off"]
    t.posmap = posmap
    t.in_struct = set(sns)
    if spec.get("coe_off", 0):
        # somebody looked at the first channel's variables before
        for name, d in sns.items():
            if isinstance(d, ProcessDesc):
                getattr(t.ch0, name)
    return t


def fit(value, size):
    if isinstance(size, int):
        return value & 3
    lo, hi = dsl.fmt_range(size)
    span = hi - lo + 1
    return lo + (value - lo) % span


def build(case, kind):
    ec = FastEtherCat("verif")
    classes = {}     # terminals of the same description share their class
    terms = [make_terminal(ec, s, i, classes)
             for i, s in enumerate(case["terminals"])]
    links = case["links"]
    ns = {}
    for k, ln in enumerate(links):
        ns[f"tv{k}"] = TerminalVar()
        ns[f"r{k}"] = DeviceVar("q")
        ns[f"w{k}"] = DeviceVar("q", write=True)

    def both(self):
        for k, ln in enumerate(links):
            if ln["role"] == "read":
                setattr(self, f"r{k}", getattr(self, f"tv{k}"))
            else:
                setattr(self, f"tv{k}", getattr(self, f"w{k}"))
    ns["program"] = both
    ns["update"] = both
    Dev = type("Dev", (Device,), ns)
    dev = Dev()
    for k, ln in enumerate(links):
        t = terms[ln["term"]]
        pv = getattr(t.ch, ln["var"]) if ln["var"] in t.in_struct \
            else getattr(t, ln["var"])
        setattr(dev, f"tv{k}", pv)
    cls = FastSyncGroup if kind == "fast" else SyncGroup
    sg = cls(ec, [dev])
    sg.allocate()
    return ec, terms, dev, sg


def run_case(case):
    links = case["links"]
    specs = case["terminals"]

    def var_of(ln):
        return [v for v in specs[ln["term"]][ln["dir"]]
                if v["name"] == ln["var"]][0]
    kinds = sorted({(str(var_of(ln)["size"]), var_of(ln)["via"], ln["role"])
                    for ln in links})
    classes = [f"links={len(links)}"] + sorted(
        {f"via={v[1]}" for v in kinds} | {f"role={v[2]}" for v in kinds}
        | {"bit" if v[0].isdigit() else "struct-fmt" for v in kinds})

    def fail(what, path):
        return dict(ok=False, nontrivial=True, classes=classes,
                    bucket=(path, what[:40]),
                    what=f"[{path} path] {what}; links "
                         f"{[(ln['term'], ln['var'], ln['role'], var_of(ln)['size'], var_of(ln)['via']) for ln in links]}"
                         f" terminals {[(s['use_fmmu'], s['struct_off'], [(v['name'], v['size']) for v in s['in']], [(v['name'], v['size']) for v in s['out']]) for s in specs]}")

    results = {}
    for path in ("slow", "fast"):
        with kernel.tracking() as tracker:
            try:
                ec, terms, dev, sg = build(case, path)
            except AssembleError:
                return dict(ok=True, nontrivial=False,
                            classes=classes + ["rejected:AssembleError"])
            except OverflowError:
                return dict(ok=True, nontrivial=False,
                            classes=classes + ["overflow"])
            except (KeyError, IndexError, AttributeError) as e:
                # every declared variable exists in the generated mapping
                return fail(f"resolving the declared variables raised "
                            f"{type(e).__name__}: {e}", path)
            size = max(46, sg.packet.size)
            frame = bytearray((case["seed"] + 29 * i + (i * i >> 4)) & 0xff
                              for i in range(size))
            # expected values and frame per the oracle
            exp = bytearray(frame)
            exp_reads = {}
            last_write = {}
            for k, ln in enumerate(links):
                v = var_of(ln)
                t = terms[ln["term"]]
                sm = SyncManager.IN if ln["dir"] == "in" else SyncManager.OUT
                if sm not in sg.pdo_assign.get(t, {}):
                    written = any(l2["term"] == ln["term"]
                                  and l2["dir"] == "out"
                                  and l2["role"] == "write" for l2 in links)
                    if sm is SyncManager.OUT and written:
                        return fail(
                            f"terminal {ln['term']} has a variable the "
                            f"device writes, but the group reserved no "
                            f"output region for it (regions: "
                            f"{sorted(k.name for k in sg.pdo_assign.get(t, {}))})",
                            path)
                    return dict(ok=True, nontrivial=False,
                                classes=classes + ["region-missing"])
                pos = sg.pdo_assign[t][sm] + t.posmap[ln["var"]]
                need = 1 if isinstance(v["size"], int) \
                    else struct.calcsize("<" + v["size"])
                if pos + need > len(frame):
                    return fail(
                        f"variable {ln['var']}:{v['size']} of terminal "
                        f"{ln['term']} was placed at {pos}..{pos + need}, "
                        f"outside the frame of {len(frame)} bytes", path)
                if ln["role"] == "read":
                    if isinstance(v["size"], int):
                        exp_reads[k] = (exp[pos] >> v["size"]) & 1
                    else:
                        exp_reads[k], = struct.unpack_from(
                            "<" + v["size"], exp, pos)
                else:
                    val = fit(ln["value"], v["size"])
                    if isinstance(v["size"], int):
                        if val:
                            exp[pos] |= 1 << v["size"]
                        else:
                            exp[pos] &= ~(1 << v["size"])
                    else:
                        struct.pack_into("<" + v["size"], exp, pos, val)
            regions = []
            for t in terms:
                for sm, start in sg.pdo_assign.get(t, {}).items():
                    n = t.pdo_in_sz if sm is SyncManager.IN else t.pdo_out_sz
                    regions.append((start, start + n))
            try:
                if path == "slow":
                    # an earlier cycle on another buffer object: every cycle
                    # of a sync group gets its own received frame
                    sg.current_data = bytearray(
                        (b ^ 0xa5) for b in frame)
                    for k, ln in enumerate(links):
                        if ln["role"] == "write":
                            setattr(dev, f"w{k}", fit(ln["value"] ^ 1,
                                                      var_of(ln)["size"]))
                    dev.update()
                    for k, ln in enumerate(links):
                        if ln["role"] == "read":
                            getattr(dev, f"r{k}")
                    sg.current_data = bytearray(frame)
                    for k, ln in enumerate(links):
                        if ln["role"] == "write":
                            setattr(dev, f"w{k}",
                                    fit(ln["value"], var_of(ln)["size"]))
                    dev.update()
                    after = bytes(sg.current_data)
                    reads = {k: getattr(dev, f"r{k}")
                             for k, ln in enumerate(links)
                             if ln["role"] == "read"}
                else:
                    loaded = dsl.Loaded(sg)
                    if loaded.status == "rejected":
                        return dict(ok=True, nontrivial=False, classes=classes
                                    + ["rejected:AssembleError"])
                    if loaded.status == "verifier":
                        classes.append("verifier-rejected")
                    mm = sg.properties
                    init = bytearray(type(sg).__dict__["properties"].size)
                    init[sg.__dict__["wkc_errors"]] = 1
                    for k, ln in enumerate(links):
                        if ln["role"] == "write":
                            p = dev.__dict__[f"w{k}"]
                            init[p:p + 8] = struct.pack(
                                "<Q", fit(ln["value"], var_of(ln)["size"])
                                & (2**64 - 1))
                    fd = dsl.array_fd(tracker, len(init))
                    pkt = bytearray(14) + frame
                    obs = dsl.run_both(loaded, tracker, pkt,
                                       arrays={fd: (mm, bytes(init))})
                    if obs.fault:
                        return fail(f"generated code faults: {obs.fault}",
                                    path)
                    after = obs.packet[14:]
                    out = obs.maps[fd]
                    reads = {}
                    for k, ln in enumerate(links):
                        if ln["role"] == "read":
                            p = dev.__dict__[f"r{k}"]
                            reads[k], = struct.unpack_from("<q", out, p)
            except HarnessError:
                raise
            except Exception as e:
                return fail(f"raised {type(e).__name__}: {e}", path)
            for k, want in exp_reads.items():
                v = var_of(links[k])
                got = reads[k]
                if isinstance(v["size"], int):
                    # a bit reads as False / True (0 / 1), not as its mask
                    if got not in (0, 1):
                        return fail(f"link {k} ({links[k]['var']}: bit "
                                    f"{v['size']}) read {got!r}, a bit "
                                    f"variable reads as 0 or 1", path)
                    got = int(got)
                elif v["size"] == "Q" and got < 0:
                    got += 1 << 64
                if got != want:
                    return fail(f"link {k} ({links[k]['var']}:{v['size']} "
                                f"via {v['via']}) read {got}, frame holds "
                                f"{want}", path)
            for a, b in regions:
                if b > len(frame):
                    return fail(f"a terminal's region {a}..{b} reaches "
                                f"beyond the frame of {len(frame)} bytes",
                                path)
                if after[a:b] != exp[a:b]:
                    diff = [i for i in range(a, b) if after[i] != exp[i]]
                    return fail(f"region {a}..{b} differs at {diff[:6]}: "
                                f"{after[diff[0]]:#x} instead of "
                                f"{exp[diff[0]]:#x} (frame had "
                                f"{frame[diff[0]]:#x})", path)
            results[path] = (reads, [bytes(after[a:b]) for a, b in regions])
    writes = [ln for ln in links if ln["role"] == "write"]
    reads_ = [ln for ln in links if ln["role"] == "read"]
    nontrivial = bool(writes) and any(
        r["term"] == w["term"] for r in reads_ for w in writes)
    return dict(ok=True, nontrivial=nontrivial, key=repr((kinds, [
        s["use_fmmu"] for s in specs])), classes=classes,
        summary={"links": [(ln["var"], ln["role"]) for ln in links]})


KNOWN = {}
