"""A rig that runs real sync groups (SyncGroup / FastSyncGroup .run()) against
simulated terminals on the virtual-time loop.  Used by C30 and C24.

The terminals are TerminalModel instances whose station addresses equal the
positions of the ebpfcat terminal objects; process data lives in their
register memory at the sync-manager offsets; FMMU registers written by
Terminal.map_fmmu make the logical datagrams reach that memory.
"""
import asyncio
import struct

import ebpfcat.ebpfcat as ebmod
from ebpfcat.ebpfcat import FastEtherCat, SimpleEtherCat, SyncManager

from . import bus as simbus
from . import groups


class Rig:
    def __init__(self, loop, case, kind="slow", al_delay=None, latency=None,
                 fault=None, on_frame=None, on_response=None, table=None,
                 fmmus=4):
        self.loop = loop
        self.kind = kind
        self.case = case
        self.models = []
        for i, spec in enumerate(case["terminals"]):
            m = simbus.TerminalModel(station=spec["position"], fmmus=fmmus)
            if al_delay is not None:
                m.al_delay = al_delay
            self.models.append(m)
        self.bus = simbus.Bus(self.models)
        self.ec = FastEtherCat("verif") if kind == "fast" \
            else SimpleEtherCat("verif")
        self.on_frame = on_frame
        self.on_response = on_response    # (no, sent, back) -> back
        self.transport = simbus.connect_frame_level(
            self.ec, loop, _HookBus(self), latency=latency, fault=fault)
        self.frames = []      # (sent bytes, returned bytes)
        self.applied = {}     # frame number -> {datagram: counter change}
        ec, terms, devs, sg = groups.build_group(case, kind, ec=self.ec)
        self.terms, self.devs, self.sg = terms, devs, sg
        for t in terms:
            t.fmmu_used = [None] * fmmus
        self.registered = []
        self.unregistered = []
        if kind == "fast" and table is not None:
            # the real FastEtherCat.register_sync_group on a program table
            # (a PROG_ARRAY map of the bpf stand-in the caller has set up)
            self.ec.programs = table
        elif kind == "fast":
            rig = self

            from contextlib import contextmanager

            @contextmanager
            def register_sync_group(sg_):
                rig.registered.append(sg_)
                try:
                    yield 7
                finally:
                    rig.unregistered.append(sg_)
            self.ec.register_sync_group = register_sync_group

    def model_of(self, term):
        return self.models[self.terms.index(term)]

    def set_inputs(self, term, data):
        m = self.model_of(term)
        m.mem[term.pdo_in_off:term.pdo_in_off + len(data)] = data

    def outputs(self, term):
        m = self.model_of(term)
        return bytes(m.mem[term.pdo_out_off:term.pdo_out_off
                           + (term.pdo_out_sz or 0)])

    def state_writes(self, term):
        """AL control values written to this terminal, in order"""
        m = self.model_of(term)
        out = []
        for ev in m.log:
            if ev[0] == "w" and ev[1] <= 0x120 < ev[1] + len(ev[2]):
                out.append(ev[2][0x120 - ev[1]])
        return out


class _HookBus:
    """wraps the bus so the rig sees every frame before / after the bus"""

    def __init__(self, rig):
        self.rig = rig

    def process_frame(self, frame, faults=None):
        rig = self.rig
        no = len(rig.frames)
        if rig.on_frame is not None:
            rig.on_frame(no, frame)
        if faults and faults.get("echo"):
            # the frame comes back as it was sent: nobody on the bus has
            # seen it.  What healthy terminals would have answered tells
            # which counters are wrong now.
            import copy
            from . import frames as fr
            healthy = copy.deepcopy(rig.bus).process_frame(frame, None)
            length, ftype, dgs, end = fr.parse(bytes(healthy))
            rig.applied[no] = {i: -d.wkc for i, d in enumerate(dgs) if d.wkc}
            back = bytes(frame)
            if rig.on_response is not None:
                back = rig.on_response(no, bytes(frame), bytes(back))
            rig.frames.append((bytes(frame), bytes(back)))
            return back
        back = rig.bus.process_frame(frame, faults)
        if faults and faults.get("wkc"):
            back = bytearray(back)
            from . import frames as fr
            length, ftype, dgs, end = fr.parse(bytes(back))
            applied = {}
            for i, d in enumerate(dgs):
                delta = faults["wkc"].get(i)
                if delta:
                    # a counter cannot fall below zero
                    new = max(0, d.wkc + delta) & 0xffff
                    struct.pack_into("<H", back, d.wkc_pos, new)
                    if new != d.wkc:
                        applied[i] = new - d.wkc
            rig.applied[no] = applied
            back = bytes(back)
        if rig.on_response is not None:
            back = rig.on_response(no, bytes(frame), bytes(back))
        rig.frames.append((bytes(frame), bytes(back)))
        return back
