#!/venv/bin/python
"""tools/seeded.py [ID ...] [--also ID,ID] [--variants C,D] [--tests]

For every seeded change /verif/seeded/<ID>/<variant>.diff (written by a fresh
sub-agent that saw only the property text, see DESIGN.md): apply it to /repo's
working tree, run the property's quick check (and the checks named with --also),
ALWAYS revert, and record the outcome in seeded/RESULTS.json / RESULTS.md.
Developer tool for sensitivity testing; not a registered check.  A change is
"caught" when the property's own check exits 1 with a VIOLATION line.
"""
import glob
import json
import os
import subprocess
import sys

ROOT = "/verif/seeded"


def sh(cmd, **kw):
    return subprocess.run(cmd, shell=True, capture_output=True, text=True,
                          **kw)


def main():
    args = sys.argv[1:]
    tests = "--tests" in args
    also = []
    if "--also" in args:
        i = args.index("--also")
        also = args[i + 1].split(",")
        del args[i:i + 2]
    only = None
    if "--variants" in args:
        i = args.index("--variants")
        only = args[i + 1].split(",")
        del args[i:i + 2]
    ids = [a for a in args if not a.startswith("--")] or sorted(
        os.path.basename(d) for d in glob.glob(f"{ROOT}/C*"))
    try:
        results = json.load(open(f"{ROOT}/RESULTS.json"))
    except FileNotFoundError:
        results = {}
    assert sh("git -C /repo status --short").stdout.strip() == "", \
        "/repo has local changes"
    for pid in ids:
        for diff in sorted(glob.glob(f"{ROOT}/{pid}/*.diff")):
            variant = os.path.basename(diff)[:-5]
            if only and variant not in only:
                continue
            key = f"{pid}/{variant}"
            rec = {"checks": {}}
            r = sh(f"git -C /repo apply --check {diff}")
            if r.returncode:
                rec["error"] = "does not apply: " + r.stderr.strip()[:200]
                results[key] = rec
                print(key, rec["error"])
                continue
            try:
                sh(f"git -C /repo apply {diff}")
                if tests:
                    t = sh("cd /repo && /venv/bin/python -m pytest -q "
                           "-p no:cacheprovider 2>&1 | tail -1")
                    rec["tests"] = t.stdout.strip()
                for cid in [pid] + [a for a in also if a != pid]:
                    c = sh(f"/verif/check {cid}")
                    lines = [l.strip() for l in c.stdout.splitlines()
                             if "violation:" in l or "HARNESS" in l]
                    rec["checks"][cid] = {
                        "exit": c.returncode,
                        "first": (lines[0][:300] if lines else "")}
            finally:
                sh("git -C /repo checkout -- .")
            rec["caught"] = rec["checks"][pid]["exit"] == 1
            results[key] = rec
            print(key, "CAUGHT" if rec["caught"] else
                  f"MISSED (exit {rec['checks'][pid]['exit']})",
                  rec.get("tests", ""), rec["checks"][pid]["first"][:160])
    json.dump(results, open(f"{ROOT}/RESULTS.json", "w"), indent=1,
              sort_keys=True)
    # leave the evidence of the unchanged tree behind, not the mutant's
    for pid in ids:
        for cid in [pid] + also:
            sh(f"/verif/check {cid}")
    print(sh("git -C /repo status --short").stdout)


if __name__ == "__main__":
    main()
