"""C03 Conditional blocks run exactly the branch the condition selects

domain : programs of nested / sequenced with-blocks (with and without Else,
         `with a, b:` and the else-if form `with Else, c as Else:`) whose
         conditions are trees over atoms - comparisons of all six operators on
         registers, variables of all formats and constants (mixed widths and
         signedness), 64 bit integers against decimal constants (fixed point),
         truthiness, `expr & mask`, single- and multi-bit field variables,
         `~` - combined with & | ~; interleaved with assignments;
         8 input vectors with correlated values so atoms go both ways.
oracle : reference interpretation of the same block tree over exact values;
         the set of executed markers (one per body, one after the construct)
         must be equal.
"""
import operator
from contextlib import ExitStack

from hypothesis import strategies as st

from ebpfcat.ebpf import AssembleError, Opcode

from ..gen import dsl
from ..runner import HarnessError
from ..vm import kernel
from . import c01

ID = "C03"
LEVEL = "exploration"
TECHNIQUE = ("property-based differential testing: Hypothesis-generated block "
             "programs executed in an independent eBPF interpreter and the "
             "kernel, against a reference interpretation of the block tree")
RULE = ("Hypothesis draws (declarations incl. bit fields, block tree of depth "
        "<= 3 with condition trees of depth <= 3, 8 correlated input vectors); "
        "non-trivial = over the program's judged vectors the outermost "
        "condition of some block was seen both true and false; distinct by "
        "(block structure, condition shapes with operators, atom operand "
        "formats); plus, systematically, every comparison operator between "
        "every pair of operand kinds (4 register views, 8 variable formats), "
        "plain and negated, on equal / adjacent / boundary values")
ASSUMPTIONS = [
    "a comparison is judged when both compared values (and the intermediates "
    "of their operand expressions) fit W under the comparison's signedness "
    "(signed if either side is signed); W = 32 if any variable/register "
    "operand of that comparison is <= 4 bytes wide, else 64; unjudged atoms "
    "on the executed path make the vector unjudged",
    "operand expressions use only + - * & | ^ and leaves (the arithmetic "
    "itself is C01's subject)",
    "an Else block follows its with-block directly and belongs to a "
    "single-condition with (the documented forms)",
    "markers are raw one-byte stores into the packet, independent of the DSL",
]
EXAMPLES = {"quick": 250, "thorough": 4000}
MIN_NONTRIVIAL = {"quick": 600, "thorough": 8000}

CMPS = {"<": operator.lt, "<=": operator.le, ">": operator.gt,
        ">=": operator.ge, "==": operator.eq, "!=": operator.ne}
RINGOPS = ["+", "-", "*", "&", "|", "^"]
MAXMARK = 40


# ------------------------------------------------------------- generation

@st.composite
def case_strategy(draw, depth=3):
    nvars = draw(st.integers(1, 4))
    decls = []
    for i in range(nvars):
        kind = draw(st.sampled_from(["local", "map", "pkt"]))
        if draw(st.integers(0, 4)) == 0:
            bits = draw(st.sampled_from([1, 1, 1, 2, 3, 4]))
            pos = draw(st.integers(0, 8 - bits))
            fmt = [pos, bits]
        else:
            fmt = draw(st.sampled_from(c01.FMTS))
        decls.append({"name": f"v{i}", "kind": kind, "fmt": fmt})
    nregs = draw(st.integers(0, 3))
    nos = draw(st.permutations(dsl.REG_CANDIDATES))[:nregs]
    regs = [{"no": n, "view": draw(st.sampled_from(["r", "sr", "w", "sw"]))}
            for n in nos]
    ints = [["var", d["name"]] for d in decls if isinstance(d["fmt"], str)] \
        + [["reg", r["view"], r["no"]] for r in regs]
    bits = [d for d in decls if not isinstance(d["fmt"], str)]
    wide = [["var", d["name"]] for d in decls if d["fmt"] in ("q", "Q")] \
        + [["reg", r["view"], r["no"]] for r in regs
           if r["view"] in ("r", "sr")]
    if not ints:
        decls.append({"name": "vx", "kind": "local", "fmt": "I"})
        ints = [["var", "vx"]]
    counter = [0]

    def leaf():
        return draw(st.sampled_from(ints))

    def const():
        return ["const", draw(st.one_of(
            st.integers(-3, 3), st.sampled_from(
                [0, 1, -1, 127, 128, 255, 256, 32767, 32768, 65535,
                 2**31 - 1, 2**31, 2**32 - 1, 2**32, -2**31, -128, -32768,
                 2**63 - 1, -2**63]), st.integers(-2**31, 2**31 - 1)))]

    def operand():
        k = draw(st.integers(0, 5))
        if k <= 3:
            return leaf()
        op = draw(st.sampled_from(RINGOPS))
        if k == 4:
            return ["bin", op, leaf(), const()]
        return ["bin", op, leaf(), leaf()]

    def atom():
        k = draw(st.integers(0, 9))
        if k <= 4:
            op = draw(st.sampled_from(list(CMPS)))
            form = draw(st.integers(0, 3))
            if form == 0:
                return ["cmp", op, operand(), const()]
            if form == 1:
                return ["cmp", op, const(), operand()]
            return ["cmp", op, operand(), operand()]
        if k == 5:
            return ["truth", operand()]
        if k == 6:
            return ["mask", leaf(), draw(st.sampled_from(
                [1, 2, 4, 0x80, 0xff, 0x100, 0x8000, 0xf0f0, 0x80000000,
                 0x7fffffff]) | st.integers(1, 2**31 - 1))]
        if k == 9 and wide:
            # an integer against a decimal constant (per-100000 fixed point):
            # n <op> d/100000, both ways round
            base = draw(st.sampled_from(
                [0, 1, -1, 3, 127, 128, 255, 256, 32767, 65535, 2**31 - 1,
                 2**31, -2**31, -128]))
            frac = draw(st.sampled_from([0, 50000, -50000, 1, -1, 99999,
                                         29000]))
            return ["fcmp", draw(st.sampled_from(list(CMPS))),
                    draw(st.sampled_from(wide)), base * 100000 + frac,
                    draw(st.integers(0, 1))]
        if bits:
            return ["bit", draw(st.sampled_from(bits))["name"]]
        return ["truth", leaf()]

    def ctree(d):
        k = draw(st.integers(0, 7))
        if d == 0 or k <= 2:
            return atom()
        if k == 3:
            return ["not", ctree(d - 1)]
        return [draw(st.sampled_from(["and", "or"])), ctree(d - 1),
                ctree(d - 1)]

    def mark():
        counter[0] += 1
        return ["mark", counter[0]]

    def assign():
        dst = leaf()
        if dst[0] == "reg" or draw(st.booleans()):
            fmt = c01.leaf_fmt(dst, {d["name"]: d["fmt"] for d in decls})
            lo, hi = dsl.fmt_range(fmt)
            v = draw(st.sampled_from([0, 1, -1, lo, hi, 2, 100]))
            return ["assign", dst, ["const", min(max(v, lo), hi)]]
        src = draw(st.sampled_from([n for n in ints if n[0] == "var"]))
        return ["assign", dst, src]

    def stmts(d, n):
        out = []
        for _ in range(n):
            k = draw(st.integers(0, 5))
            if counter[0] >= MAXMARK - 4:
                break
            if k == 0:
                out.append(assign())
            elif d > 0:
                out.append(["if", block(d - 1)])
        return out

    def block(d):
        nconds = 1 if draw(st.integers(0, 4)) else 2
        conds = [ctree(draw(st.integers(0, 2))) for _ in range(nconds)]
        body = [mark()] + stmts(d, draw(st.integers(0, 2)))
        els = None
        if nconds == 1 and draw(st.booleans()):
            if d > 0 and draw(st.integers(0, 2)) == 0:
                els = {"elif": block(d - 1)}
            elif draw(st.integers(0, 5)) == 0:
                els = {"body": []}      # `with Else: pass`
            else:
                els = {"body": [mark()] + stmts(d, draw(st.integers(0, 1)))}
        return {"conds": conds, "body": body, "else": els}

    prog = []
    for _ in range(draw(st.integers(1, 3))):
        if draw(st.integers(0, 3)) == 0:
            prog.append(assign())
        prog.append(["if", block(draw(st.integers(0, depth - 1)))])
    prog.append(mark())
    names = [d["name"] for d in decls] + [f"r{r['no']}" for r in regs]
    fmts = {d["name"]: d["fmt"] for d in decls}
    fmts.update({f"r{r['no']}": dsl.view_fmt(r["view"]) for r in regs})
    vectors = []
    for _ in range(8):
        mode = draw(st.sampled_from(["near", "near", "indep", "small"]))
        base = draw(st.sampled_from(
            [0, 1, -1, 127, 128, 255, 256, 32767, 32768, 65535, 2**31 - 1,
             2**31, 2**32 - 1, 2**32, -2**31, -128, -32768, 2**63 - 1,
             -2**63]) | st.integers(-2**31, 2**31))
        vec = {}
        for n in names:
            f = fmts[n]
            if not isinstance(f, str):
                vec[n] = draw(st.integers(0, 255))
                continue
            lo, hi = dsl.fmt_range(f)
            if mode == "near":
                v = base + draw(st.integers(-2, 2))
                # wrap into the format like a store would
                v = dsl.decode_value(v, f)
            elif mode == "small":
                v = draw(st.integers(max(lo, -3), min(hi, 3)))
            else:
                v = draw(c01.value_strategy(f, "any", True))
            vec[n] = v
        vectors.append(vec)
    return {"decls": decls, "regs": regs, "prog": prog, "vectors": vectors,
            "nmarks": counter[0]}


def strategy(tier):
    return case_strategy(3)


def enumerate_cases(tier):
    """systematic part: every comparison operator between every pair of
    operand widths and signednesses (registers, local and map variables),
    plain and negated, with Else, on equal / adjacent / boundary values"""
    kinds = [("reg", v, f) for v, f in (("r", "Q"), ("sr", "q"), ("w", "I"),
                                        ("sw", "i"))] \
        + [("var", None, f) for f in "bhiqBHIQ"]
    for ka, va, fa in kinds:
        for kb, vb, fb in kinds:
            decls, regs = [], []
            if ka == "reg":
                regs.append({"no": 3, "view": va})
                A, na = ["reg", va, 3], "r3"
            else:
                decls.append({"name": "v0", "kind": "local", "fmt": fa})
                A, na = ["var", "v0"], "v0"
            if kb == "reg":
                regs.append({"no": 4, "view": vb})
                B, nb = ["reg", vb, 4], "r4"
            else:
                decls.append({"name": "v1", "kind": "map", "fmt": fb})
                B, nb = ["var", "v1"], "v1"
            la, ha = dsl.fmt_range(fa)
            lb, hb = dsl.fmt_range(fb)
            lo, hi = max(la, lb), min(ha, hb)
            base = [v for v in (-5, -1, 0, 5, lo, hi, -128, 127, 2**31 - 1,
                                -2**31) if lo <= v <= hi]
            vectors = []
            for v in base:
                for a, b in ((v, v), (v, v + 1), (v + 1, v)):
                    if la <= a <= ha and lb <= b <= hb \
                            and {na: a, nb: b} not in vectors:
                        vectors.append({na: a, nb: b})
            if (ka, va, fa) == (kb, vb, fb):
                # bit tests of this operand kind with masks up to its width
                # (immediate-sized, bit 31, beyond 32 bits), plain / negated
                width = 64 if dsl.SIZES[fa] == 8 else 32
                one = {"decls": [d for d in decls if d["name"] == "v0"],
                       "regs": [r for r in regs if r["no"] == 3]}
                for M in (1, 0x80, 0x8000, 0xf0f0, 0x7fffffff, 0x80000000,
                          0xc0000000, 0xffffffff, 2**32, 2**40 + 2**31,
                          2**63):
                    if M >= 1 << width:
                        continue
                    vals = [v for v in (0, 1, M, M >> 1, M << 1, M - 1,
                                        2**32 + 1, 2**40, 2**31 - 1, 2**31,
                                        -1, -2, la, ha, 0xffffffff00000000,
                                        -2**31, -2**32)
                            if la <= v <= ha]
                    for neg in (False, True):
                        cond = ["mask", A, M]
                        if neg:
                            cond = ["not", cond]
                        yield dict(one, prog=[
                            ["if", {"conds": [cond], "body": [["mark", 1]],
                                    "else": {"body": [["mark", 2]]}}],
                            ["mark", 3]],
                            vectors=[{na: v} for v in dict.fromkeys(vals)],
                            nmarks=3)
            for op in CMPS:
                for neg in (False, True):
                    cond = ["cmp", op, A, B]
                    if neg:
                        cond = ["not", cond]
                    yield {"decls": decls, "regs": regs,
                           "prog": [["if", {"conds": [cond],
                                            "body": [["mark", 1]],
                                            "else": {"body": [["mark", 2]]}}],
                                    ["mark", 3]],
                           "vectors": vectors[:16], "nmarks": 3}


# ----------------------------------------------------------------- oracle

class Unjudged(Exception):
    pass


def leaves_in(node, acc):
    return c01.leaves_of(node, acc)


def eval_atom_side(node, env, fmts, W):
    facts = set()
    try:
        vals, signed, sub = c01.ev(node, env, fmts, W, facts)
    except c01.Unjudged as u:
        raise Unjudged(str(u))
    for v, s in sub:
        if not c01.fits(v, s, W):
            raise Unjudged("operand intermediate does not fit")
    (v,) = vals
    return v, signed, facts


def expr_class(n):
    """the library class an operand expression is an instance of"""
    if n[0] == "bin":
        if n[1] == "&":
            return "And"
        if n[1] in "+-" and n[2][0] == "reg" and n[2][1] in ("r", "sr") \
                and n[3][0] == "const":
            return "Sum"
        return "Binary"
    return n[0]


def width_of(nodes, fmts):
    lv = []
    for n in nodes:
        leaves_in(n, lv)
    return 32 if any(dsl.SIZES[c01.leaf_fmt(n, fmts)] <= 4 for n in lv) else 64


def eval_cond(c, env, fmts, info):
    k = c[0]
    if k == "cmp":
        W = width_of([c[2], c[3]], fmts)
        a, sa, fa = eval_atom_side(c[2], env, fmts, W)
        b, sb, fb = eval_atom_side(c[3], env, fmts, W)
        signed = sa or sb
        if not c01.fits(a, signed, W) or not c01.fits(b, signed, W):
            raise Unjudged("compared value does not fit")
        # the sides as the generated comparison has them: Python hands the
        # comparison to the right operand first when that is a constant's
        # partner or of a subclass of the left operand's class (an `&`
        # expression or a register-plus-constant sum against another binary
        # expression), which swaps the sides
        L, R = c[2], c[3]
        a_, sa_, fa_, b_, sb_, fb_ = a, sa, fa, b, sb, fb
        if L[0] == "const" or (expr_class(L) == "Binary"
                               and expr_class(R) in ("And", "Sum")):
            L, R = R, L
            a_, sa_, fa_, b_, sb_, fb_ = b, sb, fb, a, sa, fa
        ll = [dsl.SIZES[c01.leaf_fmt(n, fmts)] for n in leaves_in(L, [])]
        rl = [dsl.SIZES[c01.leaf_fmt(n, fmts)] for n in leaves_in(R, [])]
        lwide = any(x == 8 for x in ll)
        rwide = any(x == 8 for x in rl)
        rnarrow = bool(rl) and all(x <= 4 for x in rl)
        if lwide and rnarrow and sb_ and b_ < 0 \
                and (not sa_ or c01.has_and(L)):
            info["facts"].add("wide-left-vs-negative-narrow-right")
        fa, fb = fa_, fb_
        # a negative 32 bit value widened inside a 64 bit computation: on the
        # right side (evaluated in 64 bit when the other side is wide), or
        # inside a left side that has wide leaves itself.  A left side that
        # is narrow as a whole is sign-extended by the comparison and is not
        # part of this finding.
        neg32 = {"negative-sw-register", "negative-intermediate"}
        if W == 32 and ((fb & neg32 and (lwide or rwide))
                        or (fa & neg32 and lwide)):
            info["facts"].add("narrow-negative-in-wide-comparison")
        if (a < 0 or b < 0):
            info["facts"].add("negative-compared")
        if max(a, b) >= 1 << 31 and any(
                n[0] == "bin" and n[1] == "-" and n[2][0] == "reg"
                and n[2][1] == "r" and n[3][0] == "const" and n[3][1] >= 0
                for n in (c[2], c[3])):
            info["facts"].add("unsigned-register-minus-const-topbit")
        if (a < 0 and c01.has_and(c[2])) or (b < 0 and c01.has_and(c[3])):
            info["facts"].add("negative-through-and")
        return CMPS[c[1]](a, b)
    if k == "fcmp":
        a, sa, fa = eval_atom_side(c[2], env, fmts, 64)
        scaled = a * 100000
        if not -(1 << 63) <= scaled < (1 << 63):
            raise Unjudged("integer times 100000 does not fit 64 bit")
        info["facts"].add("integer-vs-decimal")
        return CMPS[c[1]](scaled, c[3]) if c[4] == 0 \
            else CMPS[c[1]](c[3], scaled)
    if k in ("truth", "mask"):
        W = width_of([c[1]], fmts)
        a, sa, fa = eval_atom_side(c[1], env, fmts, W)
        sizes = [dsl.SIZES[c01.leaf_fmt(n, fmts)]
                 for n in leaves_in(c[1], [])]
        if fa & {"negative-sw-register", "negative-intermediate"} \
                and W == 32 and any(x == 8 for x in sizes):
            info["facts"].add("narrow-negative-in-wide-comparison")
    if k == "truth":
        if not c01.fits(a, sa, W):
            raise Unjudged("tested value does not fit")
        return a != 0
    if k == "mask":
        W = width_of([c[1]], fmts)
        a, sa, fa = eval_atom_side(c[1], env, fmts, W)
        if not c01.fits(a, sa, W):
            raise Unjudged("tested value does not fit")
        return (a & c[2]) != 0
    if k == "bit":
        pos, nbits = fmts[c[1]]
        return (env[c[1]] >> pos) & ((1 << nbits) - 1) != 0
    if k == "not":
        return not eval_cond(c[1], env, fmts, info)
    if k == "and":
        return eval_cond(c[1], env, fmts, info) \
            and eval_cond(c[2], env, fmts, info)
    if k == "or":
        return eval_cond(c[1], env, fmts, info) \
            or eval_cond(c[2], env, fmts, info)
    raise HarnessError(f"bad condition {c}")


def ref_run(stmts, env, fmts, marks, info):
    for s in stmts:
        if s[0] == "mark":
            marks.add(s[1])
        elif s[0] == "assign":
            dst, src = s[1], s[2]
            name = c01.leaf_name(dst)
            fmt = c01.leaf_fmt(dst, fmts)
            if src[0] == "const":
                v = src[1]
            else:
                v = dsl.decode_value(env[c01.leaf_name(src)],
                                     c01.leaf_fmt(src, fmts))
                sf = c01.leaf_fmt(src, fmts)
                if dsl.SIZES[sf] < dsl.SIZES[fmt] or sf.islower() != fmt.islower():
                    info["facts"].add("converting-copy")
            env[name] = dsl.decode_value(v, fmt)
        elif s[0] == "if":
            ref_block(s[1], env, fmts, marks, info)


def ref_block(blk, env, fmts, marks, info):
    taken = True
    for c in blk["conds"]:
        if not eval_cond(c, env, fmts, info):
            taken = False
            break
    info["outcomes"].setdefault(id(blk), set()).add(taken)
    if taken:
        ref_run(blk["body"], env, fmts, marks, info)
    elif blk["else"] is not None:
        if "elif" in blk["else"]:
            ref_block(blk["else"]["elif"], env, fmts, marks, info)
        else:
            ref_run(blk["else"]["body"], env, fmts, marks, info)


# -------------------------------------------------------------- execution

def as_comparison(c, e):
    """condition tree -> Comparison object (never a bare Expression)"""
    k = c[0]
    if k == "cmp":
        return CMPS[c[1]](c01.to_dsl(c[2], e), c01.to_dsl(c[3], e))
    if k == "fcmp":
        if c[4] == 0:
            return CMPS[c[1]](c01.to_dsl(c[2], e), c[3] / 100000)
        return CMPS[c[1]](c[3] / 100000, c01.to_dsl(c[2], e))
    if k == "truth":
        return c01.to_dsl(c[1], e) != 0
    if k == "mask":
        return (c01.to_dsl(c[1], e) & c[2]) != 0
    if k == "bit":
        return getattr(e, c[1]) != 0
    if k == "not":
        inner = c[1]
        if inner[0] == "bit" and getattr(type(e), inner[1]).fmt[1] == 1:
            return ~getattr(e, inner[1])       # documented single-bit form
        return ~as_comparison(inner, e)
    if k == "and":
        return as_comparison(c[1], e) & as_comparison(c[2], e)
    return as_comparison(c[1], e) | as_comparison(c[2], e)


def as_context(c, e):
    """what the user would write after `with`"""
    k = c[0]
    if k == "truth":
        return c01.to_dsl(c[1], e)
    if k == "mask":
        return c01.to_dsl(c[1], e) & c[2]
    if k == "bit":
        return getattr(e, c[1])
    return as_comparison(c, e)


def emit(stmts, e, base):
    for s in stmts:
        if s[0] == "mark":
            e.append(Opcode.ST + Opcode.B, 9, 0, base + s[1], 1)
        elif s[0] == "assign":
            c01.assign(e, s[1], c01.to_dsl(s[2], e))
        else:
            emit_block(s[1], e, base, None)


def emit_block(blk, e, base, outer_else):
    with ExitStack() as stack:
        if outer_else is not None:
            stack.enter_context(outer_else)
        Else = None
        for c in blk["conds"]:
            Else = stack.enter_context(as_context(c, e))
        emit(blk["body"], e, base)
    if blk["else"] is not None:
        if "elif" in blk["else"]:
            emit_block(blk["else"]["elif"], e, base, Else)
        else:
            with Else:
                emit(blk["else"]["body"], e, base)


def cshape(c):
    k = c[0]
    if k == "cmp":
        return f"({c01.shape(c[2])}{c[1]}{c01.shape(c[3])})"
    if k in ("truth", "mask"):
        return f"{k}({c01.shape(c[1])})"
    if k == "fcmp":
        return f"(f{c[4]}{c01.shape(c[2])}{c[1]}dec)"
    if k == "bit":
        return "bit"
    if k == "not":
        return "~" + cshape(c[1])
    return f"[{cshape(c[1])} {k} {cshape(c[2])}]"


def bshape(stmts):
    out = []
    for s in stmts:
        if s[0] == "if":
            b = s[1]
            out.append(blockshape(b))
        elif s[0] == "assign":
            out.append("=")
    return "".join(out)


def blockshape(b):
    els = ""
    if b["else"] is not None:
        els = "elif" + blockshape(b["else"]["elif"]) \
            if "elif" in b["else"] else "else{" + bshape(b["else"]["body"]) + "}"
    return "if" + ",".join(cshape(c) for c in b["conds"]) + "{" \
        + bshape(b["body"]) + "}" + els


def cond_kinds(stmts, acc):
    def walk(c):
        acc.add(c[0] if c[0] != "cmp" else "cmp" + c[1])
        if c[0] == "not":
            walk(c[1])
        elif c[0] in ("and", "or"):
            walk(c[1])
            walk(c[2])
    for s in stmts:
        if s[0] == "if":
            b = s[1]
            while b is not None:
                for c in b["conds"]:
                    walk(c)
                if len(b["conds"]) > 1:
                    acc.add("with-a,b")
                cond_kinds(b["body"], acc)
                if b["else"] is None:
                    b = None
                elif "elif" in b["else"]:
                    acc.add("elif")
                    b = b["else"]["elif"]
                else:
                    acc.add("else")
                    if any(c[0] in ("mask", "bit") for c in b["conds"]):
                        acc.add("bit-test-with-else")
                    cond_kinds(b["else"]["body"], acc)
                    b = None
    return acc


def static_facts(stmts, acc):
    """structural facts of the program used by known-finding signatures"""
    for s in stmts:
        if s[0] != "if":
            continue
        chain = []
        b = s[1]
        while b is not None:
            chain.append(b)
            static_facts(b["body"], acc)
            els = b["else"]
            if els is None:
                b = None
            elif "elif" in els:
                b = els["elif"]
            else:
                static_facts(els["body"], acc)
                b = None
        for i, b in enumerate(chain):
            c0 = b["conds"][0]
            bittest = len(b["conds"]) == 1 and (
                c0[0] in ("mask", "bit") or (
                    c0[0] == "truth" and c0[1][0] == "bin"
                    and c0[1][1] == "&"))
            if not bittest or b["else"] is None:
                continue
            if i >= 1 or ("elif" in b["else"]
                          and chain[i + 1]["else"] is not None):
                acc.add("bit-test-elif-else")
    return acc


def run_case(case):
    decls, regs = case["decls"], case["regs"]
    fmts = {d["name"]: (d["fmt"] if isinstance(d["fmt"], str)
                        else tuple(d["fmt"])) for d in decls}
    fmts.update({f"r{r['no']}": dsl.view_fmt(r["view"]) for r in regs})
    nm = case["nmarks"]
    classes = sorted(cond_kinds(case["prog"], set()))
    sfacts = static_facts(case["prog"], set())

    def body(e, prog):
        emit(case["prog"], e, prog.layout.extra_out)

    with kernel.tracking() as tracker:
        try:
            prog = dsl.Program(decls, regs, body, extra_out=nm + 2)
            status = prog.assemble(tracker)
        except AssembleError:
            return dict(ok=True, nontrivial=False,
                        classes=classes + ["rejected:AssembleError"])
        except HarnessError:
            raise
        except Exception as err:
            return dict(ok=True, nontrivial=False, classes=classes + [
                f"build-error:{type(err).__name__}"])
        if status == "rejected":
            return dict(ok=True, nontrivial=False,
                        classes=classes + ["rejected:AssembleError"])
        if status == "verifier":
            classes.append("verifier-rejected")
        outcomes = {}
        judged = 0
        key = bshape(case["prog"]) + repr(sorted(
            (k, str(v)) for k, v in fmts.items()))
        for vec in case["vectors"]:
            env = {}
            for n, f in fmts.items():
                env[n] = vec[n] if not isinstance(f, str) \
                    else dsl.decode_value(vec[n], f)
            marks = set()
            info = {"facts": set(sfacts), "outcomes": {}}
            try:
                ref_run(case["prog"], dict(env), fmts, marks, info)
            except Unjudged:
                try:
                    prog.run(vec, tracker)
                except HarnessError as e:
                    if "bit-test-elif-else" not in sfacts \
                            or "disagree" not in str(e):
                        raise
                classes.append("unjudged")
                continue
            try:
                obs = prog.run(vec, tracker)
            except HarnessError as e:
                # the mis-spliced jumps of such a chain can land behind the
                # load of a compared register: the program then compares
                # whatever the register held (a pointer), so interpreter and
                # kernel need not agree - the chain is wrong either way
                if "bit-test-elif-else" not in sfacts \
                        or "disagree" not in str(e):
                    raise
                return dict(
                    ok=False, nontrivial=True, classes=classes, key=key,
                    facts=sorted(info["facts"]),
                    bucket=(sorted(info["facts"]), classes),
                    what=(f"{render(case)} with {env}: the generated code "
                          f"compares a register it never loaded (result "
                          f"depends on addresses)"))
            if obs.fault:
                return dict(ok=False, nontrivial=True, classes=classes,
                            facts=sorted(info["facts"]), key=key,
                            what=f"generated code faults: {obs.fault}; "
                                 f"{bshape(case['prog'])} with {env}")
            base = prog.layout.extra_out
            got = {i for i in range(1, nm + 1) if obs.packet[base + i]}
            if obs.packet[prog.layout.marker] != dsl.MARK:
                got.discard(nm)
                ran_to_end = False
            else:
                ran_to_end = True
            judged += 1
            for k2, v in info["outcomes"].items():
                outcomes.setdefault(k2, set()).update(v)
            if got != marks or not ran_to_end:
                return dict(
                    ok=False, nontrivial=True, classes=classes, key=key,
                    facts=sorted(info["facts"]),
                    bucket=(sorted(info["facts"]), classes),
                    what=(f"{render(case)} with {env}: markers executed "
                          f"{sorted(got)}, expected {sorted(marks)}"
                          f"{'' if ran_to_end else '; did not reach the end'}"))
        both = any(len(v) == 2 for v in outcomes.values())
        if judged:
            classes.append("judged")
        return dict(ok=True, nontrivial=bool(judged and both), key=key,
                    judged=judged > 0, classes=classes,
                    summary={"program": render(case),
                             "judged_vectors": judged})


def rcond(c):
    k = c[0]
    if k == "cmp":
        return f"({c01.render_node(c[2])} {c[1]} {c01.render_node(c[3])})"
    if k == "fcmp":
        a, b = c01.render_node(c[2]), repr(c[3] / 100000)
        return f"({a} {c[1]} {b})" if c[4] == 0 else f"({b} {c[1]} {a})"
    if k == "truth":
        return c01.render_node(c[1])
    if k == "mask":
        return f"({c01.render_node(c[1])} & {c[2]:#x})"
    if k == "bit":
        return c[1]
    if k == "not":
        return "~" + rcond(c[1])
    return f"({rcond(c[1])} {'&' if k == 'and' else '|'} {rcond(c[2])})"


def rstmts(stmts):
    out = []
    for s in stmts:
        if s[0] == "mark":
            out.append(f"M{s[1]}")
        elif s[0] == "assign":
            out.append(f"{c01.render_node(s[1])}={c01.render_node(s[2])}")
        else:
            out.append(rblock(s[1]))
    return "; ".join(out)


def rblock(b):
    txt = "with " + ", ".join(rcond(c) for c in b["conds"]) + ": {" \
        + rstmts(b["body"]) + "}"
    if b["else"] is not None:
        if "elif" in b["else"]:
            txt += " Else, " + rblock(b["else"]["elif"])
        else:
            txt += " Else: {" + rstmts(b["else"]["body"]) + "}"
    return txt


def render(case):
    d = ", ".join(f"{x['name']}:{x['kind']}:{x['fmt']}" for x in case["decls"])
    r = ", ".join(f"{x['view']}{x['no']}" for x in case["regs"])
    return f"[{d}; {r}] {rstmts(case['prog'])}"


KNOWN = {
    # r - c is turned into Sum(r, -c), which is typed signed because of the
    # negated constant: values >= 2**63 are compared as negative
    "C03-unsigned-register-minus-const":
        lambda case, res: "unsigned-register-minus-const-topbit"
        in res.get("facts", ()),
    # x & y is typed unsigned: a negative value computed through it is
    # compared unsigned (root cause shared with C01-and-result-unsigned)
    "C03-and-result-unsigned":
        lambda case, res: "negative-through-and" in res.get("facts", ()),
    # unsigned 64 bit left operand against a negative signed operand of <= 4
    # bytes on the right: the right side is only sign-extended to 32 bits
    "C03-wide-unsigned-left-narrow-negative-right":
        lambda case, res: "wide-left-vs-negative-narrow-right"
        in res.get("facts", ()),
    # same root cause as C01-narrow-negative-widening, seen by a comparison
    "C03-narrow-negative-widening":
        lambda case, res: "narrow-negative-in-wide-comparison"
        in res.get("facts", ()),
    # AndComparison.__exit__ splices the else-body in front of the jump; a
    # comparison opened inside that else-body (else-if chain) keeps stale
    # instruction indexes, so its own Else patches the wrong instruction
    "C03-bit-test-elif-else":
        lambda case, res: "bit-test-elif-else" in res.get("facts", ()),
}
