"""C30 Slow sync groups exchange process data and check working counters

domain : 1-3 simulated terminals with random process-data layouts (FMMU and
         direct addressing), a device reading one input variable and writing
         one output variable and two output bits of one byte (in either
         order) each cycle; in a third of the cases the group ran and was
         cancelled once before on the same objects; the real SyncGroup.run() over the
         frame-level bus on virtual time for 4-8 cycles; per cycle a generated
         input value, output value, frame latency and working-counter errors
         (drawn from what a bus with these terminals can produce).
oracle : update k sees the input of response k; the output set in update k is
         in cyclic frame k+1; every working counter in a re-sent frame is 0;
         from the second cycle on wkc_errors grows by exactly the number of
         datagrams whose returned counter differs from the expected one.
"""
import asyncio
import struct

from hypothesis import strategies as st

import ebpfcat.ebpfcat as ebmod
from ebpfcat.ebpfcat import Device, SyncGroup, SyncManager, TerminalVar

from ..gen import dsl
from ..sim import cyclic, frames, groups
from ..sim import loop as simloop

ID = "C30"
LEVEL = "exploration"
TECHNIQUE = ("model-based testing of the real SyncGroup.run loop on a "
             "virtual-time event loop against simulated terminals; invariant "
             "over the history of cyclic frames, device-visible values and "
             "wkc_errors")
RULE = ("Hypothesis draws (terminal layouts, which variables the device "
        "reads / writes, per-cycle inputs, outputs, latencies and working-"
        "counter faults); non-trivial = at least 3 cycles completed and a "
        "working-counter fault occurred after the first cycle or the input "
        "changed between cycles; distinct by (layout kinds, cycle count, "
        "fault pattern)")
ASSUMPTIONS = [
    "latencies stay below the 20 ms response time-out; lost transmissions "
    "are re-sent by the group after that time-out",
    "wrong working counters are what a bus can produce: up to 3 x terminals "
    "too high or one too low (never below zero), also one too high and one "
    "too low in the same frame; injected by changing the counter the "
    "simulated terminals produced",
    "ebpfcat.ebpfcat.monotonic is the virtual loop's clock",
]
EXAMPLES = {"quick": 40, "thorough": 5000}
MIN_NONTRIVIAL = {"quick": 150, "thorough": 3000}
CASE_TIMEOUT = 300


@st.composite
def case_strategy(draw):
    nt = draw(st.integers(1, 3))
    terms = [draw(groups.terminal_strategy(i)) for i in range(nt)]
    ti = draw(st.integers(0, nt - 1))
    to = draw(st.integers(0, nt - 1))
    fi = draw(st.sampled_from("BHIhiq"))
    fo = draw(st.sampled_from("BHIhiq"))
    terms[ti]["in"].append({"name": "rin", "size": fi, "via": "packet"})
    terms[to]["out"].append({"name": "rout", "size": fo, "via": "packet"})
    # two single-bit outputs in one byte, set every cycle
    b0 = draw(st.integers(0, 7))
    b1 = draw(st.integers(0, 7).filter(lambda b: b != b0))
    # (declared by position, or as bit n of a mapped byte / word)
    for name, b in (("rb0", b0), ("rb1", b1)):
        v = {"name": name, "size": b,
             "via": draw(st.sampled_from(["packet", "override"]))}
        if v["via"] == "override":
            v["mapped"] = draw(st.sampled_from("BH"))
        terms[to]["out"].append(v)
    if draw(st.integers(0, 5)) == 0:
        # a frame beyond 1 kB: the first terminal has a large process image
        if not terms[0]["in"]:
            terms[0]["in"].append({"name": "i8", "size": "H",
                                   "via": "packet"})
        terms[0]["in_pad"] = draw(st.sampled_from([1000, 1024, 1100]))
    ncyc = draw(st.integers(4, 8))
    cycles = []
    for _ in range(ncyc + 1):
        lo, hi = dsl.fmt_range(fi)
        lo2, hi2 = dsl.fmt_range(fo)
        cycles.append({
            "input": draw(st.integers(lo, hi)),
            "output": draw(st.integers(lo2, hi2)),
            "latency": draw(st.sampled_from([0, 0, 1, 5])),
            # counters too high, too low (a terminal that did not answer),
            # or one too high and one too low in the same frame
            "wkc": draw(st.one_of(
                st.dictionaries(st.integers(1, 5), st.integers(1, 3 * nt)
                                | st.just(-1), max_size=2),
                st.tuples(st.integers(1, 3), st.integers(1, 3),
                          st.integers(1, 2)).map(
                    lambda t: {t[0]: t[2], t[0] + t[1]: -t[2]}))
                if draw(st.integers(0, 2)) == 0 else st.just({})),
            "bits": [draw(st.booleans()), draw(st.booleans()),
                     draw(st.booleans())],     # rb0, rb1, rb1 first
        })
    # cyclic transmissions that get lost on the way (the group re-sends after
    # its 20 ms time-out)
    lose = draw(st.lists(st.integers(2, ncyc + 1), max_size=2, unique=True)
                if draw(st.integers(0, 2)) == 0 else st.just([]))
    return {"terminals": terms, "devices": [],
            "link": {"in": [ti, "rin", fi], "out": [to, "rout", fo]},
            "cycles": cycles, "lose": sorted(lose),
            # this terminal refuses to go to SAFE-OPERATIONAL (error flag):
            # the group must fail instead of driving the others on
            # (one of the terminals the device uses)
            "refuse": draw(st.none() | st.none() | st.none()
                           | st.sampled_from([ti, to])),
            "second_life": draw(st.sampled_from([False, False, True]))}


def enumerate_cases(tier):
    """cycles whose frame comes back exactly as it was sent (nobody answered:
    every working counter is 0, no byte changed) between healthy cycles"""
    def term(pos, fmmu, big=0):
        return {"position": pos, "use_fmmu": fmmu,
                "in": [{"name": "rin", "size": "h", "via": "packet"}],
                "out": [{"name": "rout", "size": "h", "via": "packet"}],
                "in_off": 0x1100, "out_off": 0x1800, "in_pad": big,
                "out_pad": 1}
    for layout in ([term(1000, True)], [term(1000, False)],
                   [term(1000, True), term(1004, False)],
                   [term(1000, False, 1100), term(1004, True)]):
        for pattern in ([0, 0, 1, 0, 1, 1, 0], [0, 1, 1, 1, 0, 0, 0],
                        [0, 0, 0, 1, 0, 1, 0]):
            for out in (5, 0):
                ti = len(layout) - 1
                # (inputs and outputs stay the same, so an untouched frame
                # equals the previous response byte for byte)
                cycles = [{"input": 77, "output": out, "latency": 0,
                           "wkc": {}, "bits": [False, False, False],
                           "echo": bool(e)} for e in pattern]
                yield {"terminals": layout, "devices": [],
                       "link": {"in": [ti, "rin", "h"],
                                "out": [ti, "rout", "h"]},
                       "cycles": cycles}


def strategy(tier):
    return case_strategy()


class Recorder(Device):
    inp = TerminalVar()
    out = TerminalVar()
    bit0 = TerminalVar()
    bit1 = TerminalVar()

    def __init__(self):
        self.seen = []
        self.errors = []
        self.script = []
        self.bits = []

    def update(self):
        self.seen.append(self.inp)
        self.errors.append(self.sync_group.wkc_errors)
        if self.script:
            self.out = self.script.pop(0)
        if self.bits:
            v0, v1, second_first = self.bits.pop(0)
            if second_first:
                self.bit1 = v1
                self.bit0 = v0
            else:
                self.bit0 = v0
                self.bit1 = v1


def run_case(case):
    cycles = case["cycles"]
    ncyc = len(cycles) - 1
    ti, iname, fi = case["link"]["in"]
    to, oname, fo = case["link"]["out"]
    hist = {}
    real_mono = ebmod.monotonic
    SyncGroup.packet_index = 1000

    async def go(loop):
        ebmod.monotonic = loop.time
        cyc = {"n": 0}
        tx = {"n": 0}
        cur = {"index": 1000}

        def on_frame(no, frame):
            idx, = struct.unpack_from("<I", frame, 4)
            if idx != cur["index"]:
                return
            k = cyc["n"]
            cyc["n"] += 1
            c = cycles[min(k, ncyc)]
            t = rig.terms[ti]
            m = rig.model_of(t)
            pos = t.pdo_in_off + t.layout["in"][iname]
            m.mem[pos:pos + dsl.SIZES[fi]] = struct.pack("<" + fi,
                                                         c["input"])

        def latency(no):
            k = max(0, cyc["n"] - 1)
            return cycles[min(k, ncyc)]["latency"] / 1000 or None

        def fault(no, frame):
            idx, = struct.unpack_from("<I", frame, 4)
            if idx != cur["index"]:
                return {}
            tx["n"] += 1
            if tx["n"] - 1 in case.get("lose", ()):
                return {"lose": True}
            k = cyc["n"]     # this frame will be cycle k
            if cycles[min(k, ncyc)].get("echo"):
                return {"echo": True}
            w = cycles[min(k, ncyc)]["wkc"]
            return {"wkc": {int(a): b for a, b in w.items()}} if w else {}

        rig = cyclic.Rig(loop, case, "slow", latency=latency, fault=fault,
                         on_frame=on_frame)
        if case.get("refuse") is not None:
            rig.models[case["refuse"]].al_refuse = \
                lambda frm, to: 0x1d if to == 4 else None
        dev = Recorder()
        dev.inp = getattr(rig.terms[ti], iname)
        dev.out = getattr(rig.terms[to], oname)
        dev.script = [c["output"] for c in cycles]
        if "rb0" in rig.terms[to].layout["out"]:
            dev.bit0 = rig.terms[to].rb0
            dev.bit1 = rig.terms[to].rb1
            dev.bits = [list(c.get("bits") or [False, False, False])
                        for c in cycles]
        sg = SyncGroup(rig.ec, [dev])
        rig.sg = sg
        for t in sg.terminals:
            t.fmmu_used = [None] * 4
        task = sg.start()
        if case.get("second_life") and case.get("refuse") is None:
            # the group ran before: two updates, cancelled, started again on
            # the same objects; only the second life is judged
            for _ in range(4000):
                await asyncio.sleep(0.001)
                if len(dev.seen) >= 2 or task.done():
                    break
            task.cancel()
            try:
                await task
            except asyncio.CancelledError:
                pass
            except Exception as e:
                hist["end"] = f"first life: {type(e).__name__}: {e}"
                return
            del rig.frames[:], rig.transport.sent[:], dev.seen[:], \
                dev.errors[:]
            rig.applied.clear()
            cyc["n"] = tx["n"] = 0
            dev.script = [c["output"] for c in cycles]
            if dev.bits:
                dev.bits = [list(c.get("bits") or [False, False, False])
                            for c in cycles]
            task = sg.start()
            cur["index"] = sg.packet_index
        hist["index"] = cur["index"]
        hist["rig"], hist["dev"], hist["sg"] = rig, dev, sg
        for _ in range(4000):
            await asyncio.sleep(0.001)
            if len(dev.seen) >= ncyc or task.done():
                break
        task.cancel()
        try:
            await task
        except asyncio.CancelledError:
            hist["end"] = "cancelled"
        except Exception as e:
            hist["end"] = f"{type(e).__name__}: {e}"
        else:
            hist["end"] = "returned"

    try:
        simloop.run(go, budget=2000000)
    except (simloop.LoopStalled, simloop.BudgetExceeded) as e:
        hist["end"] = f"stalled: {e!r}"
    finally:
        ebmod.monotonic = real_mono

    classes = [f"terminals={len(case['terminals'])}", f"cycles={ncyc}"] + (
        ["second-life"] if case.get("second_life")
        and case.get("refuse") is None else [])

    def fail(what):
        return dict(ok=False, nontrivial=True, classes=classes,
                    what=f"{what}; link {case['link']}, cycles "
                         f"{[(c['input'], c['output'], c['latency'], c['wkc']) for c in cycles]}, "
                         f"terminals {[(t['use_fmmu'], len(t['in']), len(t['out'])) for t in case['terminals']]}")

    if "rig" not in hist:
        return fail(f"the group did not start: {hist.get('end')}")
    rig, dev, sg = hist["rig"], hist["dev"], hist["sg"]
    if case.get("refuse") is not None:
        classes.append("refusing-terminal")
        asked_op = [t.name for t in sg.terminals
                    if 8 in rig.state_writes(t)]
        if not hist["end"].startswith("EtherCatError"):
            return fail(f"terminal {case['refuse']} refused SAFE-OPERATIONAL "
                        f"with an error, the group task ended as "
                        f"'{hist['end']}' after {len(dev.seen)} updates "
                        f"instead of failing with EtherCatError")
        if asked_op:
            return fail(f"terminal {case['refuse']} refused SAFE-OPERATIONAL"
                        f", but {asked_op} were asked to go OPERATIONAL")
        return dict(ok=True, nontrivial=len(case["terminals"]) >= 2,
                    key=repr(("refuse", case["refuse"],
                              len(case["terminals"]))),
                    classes=classes, summary={"end": hist["end"]})
    if hist["end"] != "cancelled":
        return fail(f"the group task ended as '{hist['end']}' after "
                    f"{len(dev.seen)} updates")
    cyclic_nos = [no for no, (s, r) in enumerate(rig.frames)
                  if struct.unpack_from("<I", s, 4)[0] == hist["index"]]
    cyclic_frames = [rig.frames[no] for no in cyclic_nos]
    # a lost transmission is repeated unchanged after the time-out
    sent = [f for f in rig.transport.sent
            if struct.unpack_from("<I", f, 4)[0] == hist["index"]]
    for i in case.get("lose", ()):
        if i + 1 < len(sent) and sent[i + 1] != sent[i]:
            diff = [j for j in range(min(len(sent[i]), len(sent[i + 1])))
                    if sent[i][j] != sent[i + 1][j]]
            return fail(f"cyclic transmission {i} was lost; the frame sent "
                        f"after the time-out differs from it at offsets "
                        f"{diff[:8]} (outputs / working counters of the "
                        f"re-sent frame)")
    if len(dev.seen) < 3:
        return fail(f"only {len(dev.seen)} updates in 4 s of virtual time "
                    f"({len(cyclic_frames)} cyclic frames)")
    t_in, t_out = rig.terms[ti], rig.terms[to]
    opos = sg.pdo_assign[t_out][SyncManager.OUT] + t_out.layout["out"][oname]
    expected = dict(sg.packet.counters)
    faults = 0
    changed = False
    for k, got in enumerate(dev.seen):
        if k >= len(cyclic_frames):
            break
        want = cycles[min(k, ncyc)]["input"]
        if got != want:
            return fail(f"update {k} saw input {got}, response {k} carried "
                        f"{want}")
        if k and want != cycles[k - 1]["input"]:
            changed = True
    for k, (sent, back) in enumerate(cyclic_frames):
        try:
            length, ftype, dgs, end = frames.parse(sent)
        except frames.FrameError as e:
            return fail(f"cyclic frame {k} does not parse: {e}")
        if k >= 1:
            bad = [d.wkc for d in dgs[1:] if d.wkc != 0]
            if bad:
                return fail(f"cyclic frame {k} was sent with working "
                            f"counters {bad} (not cleared)")
            if k - 1 < len(dev.seen):
                want = cycles[min(k - 1, ncyc)]["output"]
                got, = struct.unpack_from("<" + fo, sent, opos)
                if got != want:
                    return fail(f"cyclic frame {k} carries output {got}, "
                                f"update {k - 1} had set {want}")
                lay = t_out.layout["out"]
                if "rb0" in lay:
                    v0, v1, second_first = cycles[min(k - 1, ncyc)]["bits"]
                    base = sg.pdo_assign[t_out][SyncManager.OUT]
                    for name, v in (("rb0", v0), ("rb1", v1)):
                        bit = next(x["size"] for x
                                   in case["terminals"][to]["out"]
                                   if x["name"] == name)
                        got = bool(sent[base + lay[name]] >> bit & 1)
                        if got != v:
                            return fail(
                                f"cyclic frame {k} carries output bit "
                                f"{name} (bit {bit}) = {got}, update {k - 1} "
                                f"had set {(v0, v1)} "
                                f"({'rb1 first' if second_first else 'rb0 first'})")
        if 1 <= k < len(dev.errors):
            length, ftype, rd, end = frames.parse(back)
            # independent of the library's own expectation: the simulated
            # terminals answer like healthy ones, a counter is wrong exactly
            # where the case injected a fault
            wrong = len([i for i in rig.applied.get(cyclic_nos[k], {})
                         if 1 <= i < len(rd)])
            inc = dev.errors[k] - dev.errors[k - 1]
            if wrong:
                faults += 1
            if inc != wrong:
                return fail(f"cycle {k}: {wrong} datagram(s) came back with "
                            f"a wrong working counter "
                            f"({[(d.wkc, expected.get(d.wkc_pos)) for d in rd[1:]]})"
                            f", wkc_errors grew by {inc}")
    return dict(ok=True,
                nontrivial=len(dev.seen) >= 3 and (faults > 0 or changed),
                key=repr(([(t["use_fmmu"], len(t["in"]), len(t["out"]))
                           for t in case["terminals"]], len(dev.seen),
                          [bool(c["wkc"]) for c in cycles], fi, fo)),
                classes=classes + (["wkc-fault"] if faults else [])
                + (["lost-transmission"] if any(
                    i + 1 < len(sent) for i in case.get("lose", ())) else []),
                summary={"updates": len(dev.seen),
                         "cyclic_frames": len(cyclic_frames),
                         "wkc_errors": dev.errors})


KNOWN = {}
